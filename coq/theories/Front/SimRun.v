(* Front/SimRun.v — the simulation loop of cmd/bondmachine -sim (and SinglePipelineSimulate) as far as
   simulation rules are concerned: which set rules act at a tick, which show rules print at a tick,
   in which order, and what a whole run prints.  The machine itself is a parameter. *)
From Coq Require Import String NArith List Bool.
From BM Require Import Front.Simbox.
Import ListNotations.
Local Open Scope N_scope.

Definition is_active (r : rule) : bool := negb (r_suspended r).
Definition is_set (r : rule) : bool := match r_action r with ASet => true | _ => false end.
Definition is_show (r : rule) : bool := match r_action r with AShow => true | _ => false end.

(* absolute: at that tick; relative: on every tick that is a multiple of the period *)
Definition on_tick (r : rule) (t : N) : bool :=
  match r_timec r with
  | TAbs => r_tick r =? t
  | TRel => negb (r_tick r =? 0) && (t mod r_tick r =? 0)
  | _ => false
  end.

Definition due_set (t : N) (r : rule) : bool := is_active r && is_set r && on_tick r t.

(* a show rule prints at tick t: by its tick, or on the rising edge of its object's valid flag, or when
   the run stops *)
Definition fires (t : N) (was_valid now_valid : string -> bool) (exiting : bool) (r : rule) : bool :=
  is_active r && is_show r &&
  match r_timec r with
  | TAbs | TRel => on_tick r t
  | TOnValid => negb exiting && now_valid (r_object r) && negb (was_valid (r_object r))
  | TOnExit => exiting
  | _ => false
  end.

(* the objects shown by some is_active show rule, numbered in rule order *)
Fixpoint showables_from (seen : list string) (rs : list rule) : list string :=
  match rs with
  | [] => []
  | r :: rest => if is_active r && is_show r && negb (existsb (String.eqb (r_object r)) seen)
                 then r_object r :: showables_from (r_object r :: seen) rest
                 else showables_from seen rest
  end.
Definition showables (rs : list rule) : list string := showables_from [] rs.

(* the objects printed at a tick, in the order of their numbers *)
Definition shown (rs : list rule) (t : N) (was_valid now_valid : string -> bool) (exiting : bool) : list string :=
  filter (fun o => existsb (fun r => String.eqb (r_object r) o && fires t was_valid now_valid exiting r) rs) (showables rs).

Section Run.
Variable st : Type.
Variable step : st -> st.                       (* VM.Step *)
Variable get : st -> string -> N.               (* the value of a named object *)
Variable put : st -> string -> N -> st.         (* what a set does (an external input also gets its valid flag) *)
Variable lit : string -> N.                     (* the number a rule's text denotes *)
Variable valid : st -> string -> bool.          (* the valid flag that belongs to an object *)

Definition apply_sets (rs : list rule) (t : N) (s : st) : st :=
  fold_left (fun s r => if due_set t r then put s (r_object r) (lit (r_extra r)) else s) rs s.

Definition line (rs : list rule) (t : N) (old new : st) (exiting : bool) : list N :=
  map (get new) (shown rs t (valid old) (valid new) exiting).

(* [stop]: the object whose valid flag ends the run when it is set at the start of an iteration
   (-sim-stop-on-valid-of); at most [n] iterations.  Result: the lines printed, tick by tick *)
Fixpoint run (rs : list rule) (stop : option string) (n : nat) (t : N) (s : st) : list (list N) :=
  match n with
  | O => []
  | S n' =>
      if match stop with Some o => valid s o | None => false end
      then [line rs t s s true]
      else let s' := step (apply_sets rs t s) in line rs t s s' false :: run rs stop n' (t + 1) s'
  end.
End Run.
