(* Front/Json.v — the building blocks the generated model of Jsoner/Dejsoner
   (generated/GenJson.v, written by translators/gojson.py from machine.go and bondmachine.go) is
   made of: the Go loop shapes those four methods use, given a meaning once.

   Go                                                            here
   ------------------------------------------------------------  -----------------------------
   r.F = make([]T, len(s.G)); for i, v := range s.G {r.F[i]=f v}  copy_loop f (G s)
   r.F = s.G                                                     G s
   the opcode lookup loop (no break: the last match wins)        lookup_last / lookup_first
   the shared-object loop (break: the first Instantiate wins)    inst_first / inst_last
   a field that is never assigned                                 the zero value

   An opcode slot is [option op]: None is the nil interface Dejsoner leaves behind when no
   registered opcode has the name (machine.go, no error path). *)
From Coq Require Import List String ZArith Bool.
Import ListNotations.

Definition copy_loop {A B} (f : A -> B) (l : list A) : list B := map f l.
Arguments copy_loop : simpl never.

Section Registry.
  Variables (op : Type) (name : op -> string).
  Definition lookup_first (all : list op) (n : string) : option op :=
    find (fun o => String.eqb (name o) n) all.
  Definition lookup_last (all : list op) (n : string) : option op := lookup_first (rev all) n.
  (* val.Op_get_name() on a nil interface panics: the guard [no_nil] of the theorems excludes it;
     the empty string only makes the function total *)
  Definition name_of (o : option op) : string := match o with Some x => name x | None => EmptyString end.
End Registry.

Section Shared.
  Variables (sinst : Type).
  Fixpoint inst_first (kinds : list (string -> option sinst)) (s : string) : option sinst :=
    match kinds with
    | [] => None
    | k :: r => match k s with Some i => Some i | None => inst_first r s end
    end.
  Definition inst_last (kinds : list (string -> option sinst)) (s : string) : option sinst := inst_first (rev kinds) s.
  Definition sstring_of (str : sinst -> string) (o : option sinst) : string :=
    match o with Some x => str x | None => EmptyString end.
End Shared.

(* opcodes and shared-object instances as the model sees them: the name / string the saved form
   keeps, and an identity standing for everything else the Go value carries *)
Record op := mkOp { op_name : string; op_id : N }.
Record sinst := mkSI { si_str : string; si_id : N }.

(* EventuallyCreateInstruction(n): if a dynamic-instruction family matches the name and no registered
   opcode has it yet, the new opcode is appended to the registry *)
Definition ensure (dyn : string -> option op) (all : list op) (n : string) : list op :=
  match dyn n with
  | Some o => if existsb (fun x => String.eqb (op_name x) n) all then all else all ++ [o]
  | None => all
  end.

(* ---------- generic facts ---------- *)
Lemma copy_loop_id {A} (l : list A) : copy_loop (fun x => x) l = l.
Proof. apply map_id. Qed.

Lemma copy_loop_compose {A B C} (f : A -> B) (g : B -> C) (l : list A) :
  copy_loop g (copy_loop f l) = copy_loop (fun x => g (f x)) l.
Proof. apply map_map. Qed.

Lemma copy_loop_fix {A} (f : A -> A) (l : list A) : Forall (fun x => f x = x) l -> copy_loop f l = l.
Proof. unfold copy_loop. induction 1 as [|x l Hx _ IH]; simpl; congruence. Qed.

Lemma copy_loop_ext {A B} (f g : A -> B) (l : list A) : Forall (fun x => f x = g x) l -> copy_loop f l = copy_loop g l.
Proof. unfold copy_loop. induction 1 as [|x l Hx _ IH]; simpl; congruence. Qed.

Lemma copy_loop_length {A B} (f : A -> B) (l : list A) : List.length (copy_loop f l) = List.length l.
Proof. apply map_length. Qed.

(* a slot survives save-then-load exactly when looking its name up gives it back *)
Definition slot_registered {op} (name : op -> string) (resolve : string -> option op) (o : option op) : Prop :=
  exists x, o = Some x /\ resolve (name x) = Some x.

Lemma slot_roundtrip {op} (name : op -> string) (resolve : string -> option op) (o : option op) :
  slot_registered name resolve o -> resolve (name_of op name o) = o.
Proof. intros [x [-> H]]. exact H. Qed.

Lemma slots_roundtrip {op} (name : op -> string) (resolve : string -> option op) (l : list (option op)) :
  Forall (slot_registered name resolve) l ->
  copy_loop resolve (copy_loop (name_of op name) l) = l.
Proof.
  intros H. rewrite copy_loop_compose. apply copy_loop_fix.
  eapply Forall_impl; [|exact H]. intros o Ho. apply slot_roundtrip; auto.
Qed.

(* the other direction: whatever a name resolves to carries that name, so saving a loaded
   machine reproduces the names — unless the name resolved to nothing *)
Lemma name_resolve {op} (name : op -> string) (all : list op) (n : string) (x : op) :
  lookup_first op name all n = Some x -> name x = n.
Proof. unfold lookup_first. intros H. apply find_some in H. destruct H as [_ H]. now apply String.eqb_eq. Qed.

Lemma lookup_first_in {op} (name : op -> string) (all : list op) (n : string) (x : op) :
  lookup_first op name all n = Some x -> In x all.
Proof. unfold lookup_first. intros H. apply find_some in H. tauto. Qed.

Lemma lookup_none {op} (name : op -> string) (all : list op) (n : string) :
  lookup_first op name all n = None <-> (forall x, In x all -> name x <> n).
Proof.
  unfold lookup_first. split.
  - intros H x Hx E. eapply find_none in H; eauto. simpl in H. apply String.eqb_neq in H. auto.
  - intros H. induction all as [|a all IH]; simpl; auto.
    destruct (String.eqb (name a) n) eqn:E.
    + apply String.eqb_eq in E. exfalso. eapply H; eauto. simpl; auto.
    + apply IH. intros x Hx. apply H. simpl; auto.
Qed.

(* creating the opcode for one name does not change what any other name resolves to, so the order
   in which Dejsoner meets the names (and the registry growing while it runs) does not matter *)
Lemma ensure_other_last (dyn : string -> option op) (all : list op) (n m : string) :
  (forall o, dyn n = Some o -> op_name o = n) -> m <> n ->
  lookup_last op op_name (ensure dyn all n) m = lookup_last op op_name all m.
Proof.
  intros Hd Hne. unfold ensure. destruct (dyn n) as [o|] eqn:E; auto.
  destruct (existsb _ all); auto. unfold lookup_last. rewrite rev_app_distr. simpl.
  destruct (String.eqb (op_name o) m) eqn:Em; auto.
  apply String.eqb_eq in Em. rewrite (Hd o eq_refl) in Em. congruence.
Qed.

Lemma ensure_other_first (dyn : string -> option op) (all : list op) (n m : string) :
  (forall o, dyn n = Some o -> op_name o = n) -> m <> n ->
  lookup_first op op_name (ensure dyn all n) m = lookup_first op op_name all m.
Proof.
  intros Hd Hne. unfold ensure. destruct (dyn n) as [o|] eqn:E; auto.
  destruct (existsb _ all); auto. unfold lookup_first.
  induction all as [|a all IH]; simpl.
  - destruct (String.eqb (op_name o) m) eqn:Em; auto.
    apply String.eqb_eq in Em. rewrite (Hd o eq_refl) in Em. congruence.
  - destruct (String.eqb (op_name a) m); auto.
Qed.

(* ---------- a common shape for comparing model values with what the implementation produced ---------- *)
Inductive tree := TZ (z : Z) | TS (s : string) | TN | TO (n : string) (id : N) | TL (l : list tree).
Fixpoint tree_eqb (a b : tree) : bool :=
  match a, b with
  | TZ x, TZ y => Z.eqb x y
  | TS x, TS y => String.eqb x y
  | TN, TN => true
  | TO n i, TO m j => String.eqb n m && N.eqb i j
  | TL l, TL m =>
      (fix go (l m : list tree) : bool :=
         match l, m with
         | [], [] => true
         | x :: l', y :: m' => tree_eqb x y && go l' m'
         | _, _ => false
         end) l m
  | _, _ => false
  end.
Definition op_tree (o : option op) : tree := match o with Some x => TO (op_name x) (op_id x) | None => TN end.
Definition sinst_tree (o : option sinst) : tree := match o with Some x => TO (si_str x) (si_id x) | None => TN end.
Definition assoc {A} (tbl : list (string * option A)) (s : string) : option A :=
  match find (fun p => String.eqb (fst p) s) tbl with Some p => snd p | None => None end.

Lemma Forall2_roundtrip {A B} (R : A -> A -> Prop) (P : A -> Prop) (f : A -> B) (g : B -> A) (l : list A) :
  (forall x, P x -> R (g (f x)) x) -> Forall P l -> Forall2 R (copy_loop g (copy_loop f l)) l.
Proof. intros H HP. unfold copy_loop. induction HP as [|x l Hx _ IH]; simpl; constructor; auto. Qed.

Lemma Forall2_copy_eq {A B} (R : A -> A -> Prop) (f : A -> B) (l m : list A) :
  (forall a b, R a b -> f a = f b) -> Forall2 R l m -> copy_loop f l = copy_loop f m.
Proof. intros H HR. unfold copy_loop. induction HR as [|a b l m Hab _ IH]; simpl; auto. rewrite (H a b Hab), IH. reflexivity. Qed.
