(* Front/BondgoCF.v — source-level meaning of the control-flow subset of the Go programs given to bondgo:
   register-sized unsigned variables with wrap-around, assignments, ++/--, IOWrite, if/else on a constant,
   for loops with optional init and post statements, break, continue, and calls of user functions with
   value parameters (a local result, an optional if/else, a return).  The meaning of a program is the
   sequence of (output, value) writes; it is computed with fuel, a loop taking one unit per iteration. *)
From Coq Require Import List NArith Bool Arith.
Import ListNotations.
Local Open Scope N_scope.

(* expressions over the variables of main *)
Inductive cexpr := EVar (v : nat) | EConst (c : N) | EAdd (a b : nat) | EMulC (a : nat) (c : N).
(* expressions over the parameters of a function *)
Inductive fexpr := FAddC (p : nat) (c : N) | FMulC (p : nat) (c : N) | FAddP (p q : nat).
(* reg_r = e | if c { reg_r = e1 } else { reg_r = e2 } [; reg_r = reg_r + p] ; return reg_r *)
Inductive fbody := FPlain (e : fexpr) | FIf (c : bool) (e1 e2 : fexpr) (extra : option nat).

Inductive cstmt :=
| SWrite (o : nat) (e : cexpr)
| SAssign (v : nat) (e : cexpr)
| SCall (v : nat) (f : nat) (args : list cexpr)
| SInc (v : nat)
| SDec (v : nat)
| SIf (c : bool) (th el : list cstmt)
| SBreak
| SContinue
| SFor (init : option (nat * N)) (post : option (nat * bool)) (body : list cstmt).   (* post: variable, true = ++ *)

Record cstate := mkCS { vars : list N; writes : list (nat * N) (* latest first *) }.
Inductive signal := Normal | Break | Continue | OutOfFuel.

Section Sem.
Variable M : N.                       (* 2 ^ register size *)
Variable funs : list fbody.
Variable max_writes : nat.

Definition var (st : cstate) (v : nat) : N := nth v (vars st) 0.
Fixpoint set_nth (k : nat) (x : N) (l : list N) : list N :=
  match l, k with [], _ => [] | _ :: t, O => x :: t | y :: t, S k' => y :: set_nth k' x t end.
Definition setv (st : cstate) (v : nat) (x : N) : cstate := mkCS (set_nth v (x mod M) (vars st)) (writes st).

Definition eval (st : cstate) (e : cexpr) : N :=
  match e with
  | EVar v => var st v
  | EConst c => c mod M
  | EAdd a b => (var st a + var st b) mod M
  | EMulC a c => (var st a * c) mod M
  end.
Definition feval (ps : list N) (e : fexpr) : N :=
  match e with
  | FAddC p c => (nth p ps 0 + c) mod M
  | FMulC p c => (nth p ps 0 * c) mod M
  | FAddP p q => (nth p ps 0 + nth q ps 0) mod M
  end.
Definition call (f : nat) (ps : list N) : N :=
  match nth_error funs f with
  | Some (FPlain e) => feval ps e
  | Some (FIf c e1 e2 extra) =>
      let r := feval ps (if c then e1 else e2) in
      match extra with Some p => (r + nth p ps 0) mod M | None => r end
  | None => 0
  end.

Definition full (st : cstate) : bool := Nat.leb max_writes (length (writes st)).

Definition post_step (post : option (nat * bool)) (st : cstate) : cstate :=
  match post with
  | Some (v, true) => setv st v (var st v + 1)
  | Some (v, false) => setv st v (var st v + M - 1)
  | None => st
  end.

(* a loop whose body is run by [rb]: the post statement runs before every iteration but the first, also after
   continue; break ends the loop *)
Fixpoint loop_run (rb : cstate -> cstate * signal) (post : option (nat * bool)) (k : nat) (first : bool) (st : cstate) : cstate * signal :=
  match k with
  | O => (st, OutOfFuel)
  | S k' =>
      let r := rb (if first then st else post_step post st) in
      match snd r with
      | Break => (fst r, Normal)
      | OutOfFuel => (fst r, OutOfFuel)
      | _ => loop_run rb post k' false (fst r)
      end
  end.

Fixpoint run (fuel : nat) (ss : list cstmt) (st : cstate) : cstate * signal :=
  match fuel with
  | O => (st, OutOfFuel)
  | S f =>
      match ss with
      | [] => (st, Normal)
      | s :: rest =>
          match s with
          | SWrite o e => if full st then (st, OutOfFuel) else run f rest (mkCS (vars st) ((o, eval st e) :: writes st))
          | SAssign v e => run f rest (setv st v (eval st e))
          | SCall v g args => run f rest (setv st v (call g (map (eval st) args)))
          | SInc v => run f rest (setv st v (var st v + 1))
          | SDec v => run f rest (setv st v (var st v + M - 1))
          | SIf c th el =>
              let r := run f (if c then th else el) st in
              match snd r with Normal => run f rest (fst r) | sg => (fst r, sg) end
          | SBreak => (st, Break)
          | SContinue => (st, Continue)
          | SFor init post body =>
              let st1 := match init with Some (v, c) => setv st v c | None => st end in
              let r := loop_run (run f body) post f true st1 in
              match snd r with Normal => run f rest (fst r) | sg => (fst r, sg) end
          end
      end
  end.

Definition program_writes (fuel nvars : nat) (ss : list cstmt) : list (nat * N) :=
  rev (writes (fst (run fuel ss (mkCS (repeat 0 nvars) [])))).
End Sem.
