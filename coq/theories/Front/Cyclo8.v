(* Front/Cyclo8.v — exact arithmetic in Z[1/2][zeta], zeta = exp(i pi/4): every entry of every gate of
   the supported set (with rotation angles that are multiples of pi/2, phases multiples of pi/4)
   lives here.  An element is (a + b zeta + c zeta^2 + d zeta^3) / 2^e. *)
From Coq Require Import ZArith List Bool.
Import ListNotations.
Local Open Scope Z_scope.
Local Open Scope bool_scope.

Record c8 := mkC8 { ca : Z; cb : Z; cc : Z; cd : Z; ce : N }.

Definition c8_0 := mkC8 0 0 0 0 0.
Definition c8_1 := mkC8 1 0 0 0 0.
Definition p2 (e : N) : Z := 2 ^ Z.of_N e.
Definition c8_add (x y : c8) : c8 :=
  let sx := p2 (ce y) in let sy := p2 (ce x) in
  mkC8 (ca x * sx + ca y * sy) (cb x * sx + cb y * sy) (cc x * sx + cc y * sy) (cd x * sx + cd y * sy) (ce x + ce y).
(* zeta^4 = -1 *)
Definition c8_mul (x y : c8) : c8 :=
  let '(a, b, c, d) := (ca x, cb x, cc x, cd x) in
  let '(p, q, r, s) := (ca y, cb y, cc y, cd y) in
  mkC8 (a * p - b * s - c * r - d * q)
       (a * q + b * p - c * s - d * r)
       (a * r + b * q + c * p - d * s)
       (a * s + b * r + c * q + d * p) (ce x + ce y).
Definition c8_eqb (x y : c8) : bool :=
  let sx := p2 (ce y) in let sy := p2 (ce x) in
  (ca x * sx =? ca y * sy) && (cb x * sx =? cb y * sy) && (cc x * sx =? cc y * sy) && (cd x * sx =? cd y * sy).
(* reduce the denominator while every numerator is even (keeps printed numbers small) *)
Fixpoint c8_norm_fuel (f : nat) (x : c8) : c8 :=
  match f with
  | O => x
  | S f' => if (0 <? Z.of_N (ce x)) && Z.even (ca x) && Z.even (cb x) && Z.even (cc x) && Z.even (cd x)
            then c8_norm_fuel f' (mkC8 (ca x / 2) (cb x / 2) (cc x / 2) (cd x / 2) (ce x - 1)) else x
  end.
Definition c8_norm (x : c8) : c8 := c8_norm_fuel (N.to_nat (ce x)) x.

(* zeta^k and real constants *)
Fixpoint zeta_pow (k : nat) : c8 :=
  match k with O => c8_1 | S k' => c8_mul (mkC8 0 1 0 0 0) (zeta_pow k') end.
Definition c8_i := mkC8 0 0 1 0 0.
Definition c8_neg (x : c8) := mkC8 (- ca x) (- cb x) (- cc x) (- cd x) (ce x).
(* complex conjugation: zeta -> zeta^-1 = -zeta^3, zeta^2 -> -zeta^2, zeta^3 -> -zeta *)
Definition c8_conj (x : c8) := mkC8 (ca x) (- cd x) (- cc x) (- cb x) (ce x).
Definition c8_half := mkC8 1 0 0 0 1.
(* 1/sqrt 2 = (zeta - zeta^3)/2 *)
Definition c8_rsqrt2 := mkC8 0 1 0 (-1) 1.
(* cos(k pi/4), sin(k pi/4) *)
Definition c8_cos (k : nat) : c8 := c8_mul c8_half (c8_add (zeta_pow (k mod 8)) (zeta_pow ((8 - k mod 8) mod 8))).
Definition c8_sin (k : nat) : c8 :=
  (* (zeta^k - zeta^-k)/(2i) = -i (zeta^k - zeta^-k)/2 *)
  c8_mul (c8_neg c8_i) (c8_mul c8_half (c8_add (zeta_pow (k mod 8)) (c8_neg (zeta_pow ((8 - k mod 8) mod 8))))).
