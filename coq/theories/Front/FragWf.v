(* Front/FragWf.v — decidable conditions under which the composed section of a processor is proved to
   compute the graph's values (Proofs/FragPass.v): register-only fragment bodies that read only what
   they received or wrote, sources that name earlier instances, a collapse list that keeps producers
   before consumers, and a processor with enough registers and outputs.  Evaluated on every graph the
   correspondence check generates. *)
From Coq Require Import List NArith Bool Arith.
From BM Require Import Isa.Sim Front.Frag.
Import ListNotations.

Definition reg_only (i : instr) : bool :=
  match i with
  | IAdd _ _ | ISub _ _ | IMult _ _ | ICpy _ _ | IAnd _ _ | IOr _ _ | IXor _ _ | INot _ _ | INand _ _ | INor _ _ | IXnor _ _
  | IClr _ | IInc _ | IDec _ | IRset _ _ | INop => true
  | _ => false
  end.

(* registers an instruction ireads / the one it writes *)
Definition ireads (i : instr) : list nat :=
  match i with
  | IAdd d s | ISub d s | IMult d s | IAnd d s | IOr d s | IXor d s | INand d s | INor d s | IXnor d s => [d; s]
  | ICpy _ s | INot _ s => [s]
  | IInc r | IDec r => [r]
  | _ => []
  end.
Definition writes (i : instr) : list nat :=
  match i with
  | IAdd d _ | ISub d _ | IMult d _ | ICpy d _ | IAnd d _ | IOr d _ | IXor d _ | INot d _ | INand d _ | INor d _ | IXnor d _ => [d]
  | IClr r | IInc r | IDec r | IRset r _ => [r]
  | _ => []
  end.


(* ---------- a fragment is a function of its inputs ---------- *)
(* every register an instruction ireads is an input or was written before; the outputs are defined *)
Fixpoint scan (W : list nat) (b : list instr) : option (list nat) :=
  match b with
  | [] => Some W
  | i :: r => if reg_only i && forallb (fun x => existsb (Nat.eqb x) W) (ireads i) then scan (writes i ++ W) r else None
  end.
Definition frag_ok (f : frag) : bool :=
  match scan (resin f) (fbody f) with
  | Some W => forallb (fun x => existsb (Nat.eqb x) W) (resout f)
  | None => false
  end.


Fixpoint nodupn (l : list nat) : bool :=
  match l with [] => true | x :: t => negb (existsb (Nat.eqb x) t) && nodupn t end.

(* sources name an earlier instance and one of its output ports *)
Definition src_ok (g : graph) (p : nat) (s : source) : bool :=
  match s with SOut p' q' => (p' <? p) && (q' <? length (resout (ifrag (inst_at g p')))) | SExt _ => true end.
Definition graph_ok (g : graph) : bool :=
  forallb (fun p => forallb (src_ok g p) (isrc (inst_at g p))) (seq 0 (length (insts g))).

(* producers inside the collapse list come before their consumers *)
Fixpoint ordered (g : graph) (cl done todo : list nat) : bool :=
  match todo with
  | [] => true
  | p :: r => forallb (fun s => match s with SOut p' _ => implb (inside cl p') (inside done p') | SExt _ => true end) (isrc (inst_at g p))
              && ordered g cl (done ++ [p]) r
  end.

Definition inst_ok (g : graph) (p : nat) : bool :=
  let i := inst_at g p in
  frag_ok (ifrag i) && nodupn (resin (ifrag i)) && (length (isrc i) =? length (resin (ifrag i))).

Definition pass_ok (g : graph) (cl : list nat) (nregs nouts : nat) : bool :=
  nodupn cl && forallb (fun p => p <? length (insts g)) cl && forallb (inst_ok g) cl &&
  forallb (fun x => x <? nregs) (frag_regs g cl ++ alloc_tmps (length (tmp_ports g cl)) (frag_regs g cl)) &&
  (length (out_ports g cl) <=? nouts) && ordered g cl [] cl.

(* what the rest of the machine delivers at the processor's inputs once it has settled *)
Definition pass_inputs (rs : N) (nregs : nat) (g : graph) (cl : list nat) (xs : list N) : list N :=
  let vals := eval_insts rs nregs xs (insts g) [] in
  map (fun pj => src_val xs vals (nth (snd pj) (isrc (inst_at g (fst pj))) (SExt 0))) (in_ports g cl).

