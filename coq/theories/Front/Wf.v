(* Front/Wf.v — the validator for machines emitted by the front-ends: what the simulator
   (Machine.Disassembler, VM.Step) and the HDL generator assume about a processor and its ROM. *)
From Coq Require Import List NArith Bool Arith String.
From BM Require Import Base.Bits Isa.Encode Net.Topo.
Import ListNotations.

Section W.
Variable tbl : list layout.

(* an input / output index read from its field must name a port the processor has *)
Definition field_in_range (a : arch) (operands : bstr) (d : dfield) : bool :=
  match slice operands (weval a (dlo d)) (weval a (dhi d)) with
  | Some b => match dk d with
              | PIn => (get_id b <? nin a)%N
              | POut => (get_id b <? nout a)%N
              | PShr k => (get_id b <? shr_num a k)%N
              | _ => true
              end
  | None => false
  end.

Definition wf_word (a : arch) (w : bstr) : bool :=
  Nat.eqb (List.length w) (max_word tbl a) && Nat.leb (opbits a) (List.length w) &&
  match nth_error (ops a) (N.to_nat (get_id (firstn (opbits a) w))) with
  | Some name => match find_layout tbl name with
                 | Some l => forallb (field_in_range a (skipn (opbits a) w)) (dfields l)
                 | None => true       (* opcode whose encoding is not modelled: width and opcode number only *)
                 end
  | None => false
  end.

Fixpoint sorted_strict (l : list string) : bool :=
  match l with
  | x :: ((y :: _) as r) => String.ltb x y && sorted_strict r
  | _ => true
  end.

Definition wf_machine (a : arch) (rom : list bstr) : bool :=
  sorted_strict (ops a) && forallb (wf_word a) rom && (List.length rom <=? 2 ^ obits a) &&
  negb (Nat.eqb (List.length (ops a)) 0) && negb (Nat.eqb (rsize a) 0).

(* a whole machine: every domain well formed, one register size, a well-formed bond graph whose
   processors have the ports their domains declare *)
Definition wf_bondmachine (rs : nat) (doms : list (arch * list bstr)) (t : bm) : bool :=
  forallb (fun d => wf_machine (fst d) (snd d) && Nat.eqb (rsize (fst d)) rs) doms &&
  wf_bmb t &&
  Nat.eqb (List.length (Topo.doms t)) (List.length doms) &&
  forallb (fun p => Nat.eqb (fst (fst p)) (N.to_nat (nin (fst (snd p)))) && Nat.eqb (snd (fst p)) (N.to_nat (nout (fst (snd p)))))
          (combine (Topo.doms t) doms).
End W.

(* what a front-end may emit: every processor has a program at its reset address, and every output of the
   machine is driven by something *)
Definition roms_nonempty (doms : list (arch * list bstr)) (t : bm) : bool :=
  forallb (fun d => match nth_error doms d with Some (_, rom) => negb (Nat.eqb (List.length rom) 0) | None => false end) (Topo.procs t).
Definition outputs_driven (t : bm) : bool :=
  forallb (fun p => match fst p, snd p with BO _, None => false | _, _ => true end) (combine (Topo.iin t) (Topo.links t)).
