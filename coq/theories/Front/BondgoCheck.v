(* Front/BondgoCheck.v — executable comparison for C12's code-generation tie *)
From Coq Require Import List NArith Bool Arith.
From BM Require Import Isa.Sim Front.Bondgo.
Import ListNotations.

Definition instr_eqb (a b : instr) : bool :=
  match a, b with
  | IAdd d s, IAdd d' s' | IMult d s, IMult d' s' | ICpy d s, ICpy d' s' => Nat.eqb d d' && Nat.eqb s s'
  | IClr r, IClr r' => Nat.eqb r r'
  | IRset r v, IRset r' v' => Nat.eqb r r' && N.eqb v v'
  | IR2o r o, IR2o r' o' => Nat.eqb r r' && Nat.eqb o o'
  | _, _ => false
  end.
Fixpoint code_eqb (a b : list instr) : bool :=
  match a, b with [], [] => true | x :: a', y :: b' => instr_eqb x y && code_eqb a' b' | _, _ => false end.
Fixpoint outs_eqb (a b : list (nat * N)) : bool :=
  match a, b with
  | [], [] => true
  | (o, v) :: a', (o', v') :: b' => Nat.eqb o o' && N.eqb v v' && outs_eqb a' b'
  | _, _ => false end.

(* 1: assembly differs, 2: register requirement differs, 3: emitted code (as observed) does not
   implement the source under the simulator model *)
Definition check_case (c : list stmt * list instr * nat * N) : list nat :=
  let '(p, observed, regsize, rsize) := c in
  let m := compile p in
  (if code_eqb (code m) observed then [] else [1]) ++
  (if Nat.eqb (max_reg (code m)) regsize then [] else [2]) ++
  (if outs_eqb (snd (run_code rsize 256 8 observed)) (snd (go_eval rsize p)) then [] else [3]).
