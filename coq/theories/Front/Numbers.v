(* Front/Numbers.v — value-level model of pkg/bmnumbers for the integer-like types:
   a number is (type, declared width, value of the byte slice).  Import of every unsigned /
   hex / bin notation, ExportString, ExportBinary, ExportBinaryNBits, ExportVerilogBinary.
   Floats, fixed point, linear quantiser and FloPoCo types are not modelled here. *)
From Coq Require Import String Ascii NArith List Bool Lia.
From BM Require Import Base.Bits Base.Dec Front.NumLit.
Import ListNotations.
Local Open Scope N_scope.

Inductive ntype := TUnsigned | THex | TBin.
Record bmnum := mkNum { nty : ntype; nbits : N; nval : N }.

Definition ntype_eqb (a b : ntype) : bool :=
  match a, b with TUnsigned, TUnsigned | THex, THex | TBin, TBin => true | _, _ => false end.
Definition bmnum_eqb (a b : bmnum) : bool :=
  ntype_eqb (nty a) (nty b) && (nbits a =? nbits b) && (nval a =? nval b).

(* the notations, one per registered matcher of these types *)
Inductive notation :=
| NPlain | N0u | N0d | N0uDot | N0dDot | N0uSized | N0dSized | NHex | NHexSized | NBin | NBinSized
| NOther.   (* a matcher of a type this model does not cover *)

(* ---------- string helpers ---------- *)
Fixpoint strip_prefix (p s : string) : option string :=
  match p, s with
  | EmptyString, _ => Some s
  | String a p', String b s' => if Ascii.eqb a b then strip_prefix p' s' else None
  | _, _ => None
  end.

(* split at the first occurrence of c *)
Fixpoint split_char (c : ascii) (s : string) : option (string * string) :=
  match s with
  | EmptyString => None
  | String a r => if Ascii.eqb a c then Some (EmptyString, r)
                  else match split_char c r with Some (x, y) => Some (String a x, y) | None => None end
  end.

Fixpoint all_chars (f : ascii -> bool) (s : string) : bool :=
  match s with EmptyString => true | String c r => f c && all_chars f r end.
Definition nonempty (s : string) : bool := match s with EmptyString => false | _ => true end.
Definition is_zero_char (c : ascii) := Ascii.eqb c "0".

(* strconv.ParseUint(s, 10, 64) on a digit string *)
Definition parse_u64 (s : string) : option N :=
  if nonempty s && all_digits s then
    match parse_digits s with Some v => if v <? 2 ^ 64 then Some v else None | None => None end
  else None.
(* strconv.Atoi on a digit string (int is 64 bits) *)
Definition atoi_digits (s : string) : option N :=
  if nonempty s && all_digits s then
    match parse_digits s with Some v => if v <? 2 ^ 63 then Some v else None | None => None end
  else None.

Definition hex_bytes (digits : string) : N := (N.of_nat (String.length digits) + 1) / 2.

(* ---------- import, one function per notation ---------- *)
Definition import_unsigned_nosize (digits : string) : option bmnum :=
  option_map (mkNum TUnsigned 64) (parse_u64 digits).

Definition import_unsigned_sized (body : string) : option bmnum :=   (* "<size>value" after 0u / 0d *)
  match strip_prefix "<" body with
  | Some r => match split_char ">" r with
              | Some (sz, val) =>
                  match atoi_digits sz, parse_u64 val with
                  | Some size, Some v =>
                      if (1 <=? size) && (size <=? 64) && ((size =? 64) || (v <? 2 ^ size))
                      then Some (mkNum TUnsigned size v) else None
                  | _, _ => None end
              | None => None end
  | None => None
  end.

Definition import_as (n : notation) (s : string) : option bmnum :=
  match n with
  | NPlain => import_unsigned_nosize s
  | N0u => match strip_prefix "0u" s with Some r => import_unsigned_nosize r | None => None end
  | N0d => match strip_prefix "0d" s with Some r => import_unsigned_nosize r | None => None end
  | N0uDot => match strip_prefix "0u" s with
              | Some r => match split_char "." r with
                          | Some (d, z) => if nonempty z && all_chars is_zero_char z then import_unsigned_nosize d else None
                          | None => None end
              | None => None end
  | N0dDot => match strip_prefix "0d" s with
              | Some r => match split_char "." r with
                          | Some (d, z) => if nonempty z && all_chars is_zero_char z then import_unsigned_nosize d else None
                          | None => None end
              | None => None end
  | N0uSized => match strip_prefix "0u" s with Some r => import_unsigned_sized r | None => None end
  | N0dSized => match strip_prefix "0d" s with Some r => import_unsigned_sized r | None => None end
  | NHex => match strip_prefix "0x" s with
            | Some r => if nonempty r then
                          option_map (fun v => mkNum THex (8 * hex_bytes r) v) (hex_value 0 r)
                        else None
            | None => None end
  | NHexSized => match strip_prefix "0x<" s with
                 | Some r => match split_char ">" r with
                             | Some (sz, digits) =>
                                 match atoi_digits sz, hex_value 0 digits with
                                 | Some bits, Some v =>
                                     if nonempty digits && (bits mod 8 =? 0) && (8 * hex_bytes digits <=? bits)
                                     then Some (mkNum THex bits v) else None
                                 | _, _ => None end
                             | None => None end
                 | None => None end
  | NBin => match strip_prefix "0b" s with
            | Some r => if nonempty r then
                          option_map (fun v => mkNum TBin (N.of_nat (String.length r)) v) (bin_value 0 r)
                        else None
            | None => None end
  | NBinSized => match strip_prefix "0b<" s with
                 | Some r => match split_char ">" r with
                             | Some (sz, digits) =>
                                 match atoi_digits sz, bin_value 0 digits with
                                 | Some bits, Some v =>
                                     if nonempty digits && (N.of_nat (String.length digits) <=? bits)
                                     then Some (mkNum TBin bits v) else None
                                 | _, _ => None end
                             | None => None end
                 | None => None end
  | NOther => None
  end.

(* ---------- export ---------- *)
Fixpoint bits_to_string (b : bstr) : string :=
  match b with [] => EmptyString | x :: r => String (if x then "1" else "0")%char (bits_to_string r) end.

Definition hexchar (d : N) : ascii := ascii_of_N (if d <? 10 then 48 + d else 87 + d).
Fixpoint to_hex (fuel : nat) (v : N) (acc : string) : string :=
  match fuel with
  | O => acc
  | S f => let acc' := String (hexchar (v mod 16)) acc in
           if v <? 16 then acc' else to_hex f (v / 16) acc'
  end.
Definition print_hex (v : N) : string := to_hex (S (N.to_nat (N.log2 v))) v EmptyString.

Definition export_binary (n : bmnum) : bstr := get_binary (nval n).

Definition export_string (n : bmnum) : string :=
  match nty n with
  | TUnsigned => print_dec (nval n)
  | THex => ("0x<" ++ print_dec (nbits n) ++ ">" ++ print_hex (nval n))%string
  | TBin => ("0b<" ++ print_dec (nbits n) ++ ">" ++ bits_to_string (get_binary (nval n)))%string
  end.

Definition export_binary_nbits (n : bmnum) (k : nat) : option bstr :=
  let b := get_binary (nval n) in
  if Nat.ltb k (List.length b) then None else Some (zeros_prefix k b).

(* "<bits>'b<digits>" : returns (bits, digits) *)
Definition export_verilog_binary (n : bmnum) : N * bstr :=
  (nbits n, zeros_prefix (N.to_nat (nbits n)) (get_binary (nval n))).

(* ---------- ImportString with an explicit visiting order of the matchers ---------- *)
(* [ms]: the registered matchers as (accepts, notation), in the order the map iteration visits them *)
Definition import_string (ms : list ((string -> bool) * notation)) (s : string) : option (option bmnum) :=
  match find (fun m => fst m s) ms with
  | Some m => Some (import_as (snd m) s)
  | None => None
  end.

(* what the type's invariants say: a number is representable in its declared width *)
Definition representable (n : bmnum) : bool :=
  match nty n with
  | TUnsigned => (nbits n =? 64) && (nval n <? 2 ^ 64)
  | THex => (1 <=? nbits n) && (nbits n mod 8 =? 0) && (nbits n <? 2 ^ 63) && (nval n <? 2 ^ nbits n)
  | TBin => (1 <=? nbits n) && (nbits n <? 2 ^ 63) && (nval n <? 2 ^ nbits n)
  end.
