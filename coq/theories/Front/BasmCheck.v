(* Front/BasmCheck.v — executable comparison of the BASM model with the real assembler and simulator *)
From Coq Require Import List NArith Bool Arith String.
From BM Require Import Net.Topo Isa.Sim Net.Tick Net.TickCheck Front.Basm Front.BondgoCheck.
Import ListNotations.

Definition src_cfg := (bool * N * source)%type.   (* iomode sync, register size, section *)

Definition instr_eq (a b : instr) : bool :=
  match a, b with
  | IAdd d s, IAdd d' s' | ISub d s, ISub d' s' | IMult d s, IMult d' s' | ICpy d s, ICpy d' s'
  | IAnd d s, IAnd d' s' | IOr d s, IOr d' s' | IXor d s, IXor d' s' | INot d s, INot d' s'
  | INand d s, INand d' s' | INor d s, INor d' s' | IXnor d s, IXnor d' s' => Nat.eqb d d' && Nat.eqb s s'
  | IClr r, IClr r' | IInc r, IInc r' | IDec r, IDec r' => Nat.eqb r r'
  | IRset r v, IRset r' v' => Nat.eqb r r' && N.eqb v v'
  | IJ t, IJ t' => N.eqb t t'
  | IJz r t, IJz r' t' => Nat.eqb r r' && N.eqb t t'
  | INop, INop => true
  | II2r r k, II2r r' k' | IR2o r k, IR2o r' k' | II2rw r k, II2rw r' k' | IR2owa r k, IR2owa r' k' => Nat.eqb r r' && Nat.eqb k k'
  | _, _ => false
  end.
Fixpoint prog_eq (a b : list instr) : bool :=
  match a, b with [], [] => true | x :: a', y :: b' => instr_eq x y && prog_eq a' b' | _, _ => false end.

(* the condition under which the lock-step theorems speak about a section: jumps are written with labels *)
Definition plain_okb (i : instr) : bool := match i with IJ _ | IJz _ _ => false | _ => true end.
Definition src_okb (src : source) : bool :=
  forallb (fun it => match it with IOp _ (SPlain i) => plain_okb i | _ => true end) src.

(* 1: assembled program differs, 2: inferred sizes differ, 3: the model rejects the source, 4: inferred sizes do not fit,
   5: the section is outside the premise of the lock-step theorems *)
Definition check_asm (c : src_cfg) (observed : list instr) (sz : nat * nat * nat * nat) : list nat :=
  let '(sync, rsize, src) := c in
  match assemble sync src with
  | None => [3]
  | Some p =>
      (if prog_eq p observed then [] else [1]) ++
      (let z := infer p in let '(r, n, m, o) := sz in
       if Nat.eqb (sz_R z) r && Nat.eqb (sz_N z) n && Nat.eqb (sz_M z) m && Nat.eqb (sz_O z) o then [] else [2]) ++
      (if fits (infer p) p then [] else [4]) ++
      (if src_okb src then [] else [5])
  end.

(* the whole machine run from the sources' own meaning; compared with the externally visible part of
   what the simulator did *)
Definition entry_pc (src : source) : nat :=
  match entries src with [e] => match label_pos src e with Some t => t | None => 0 end | _ => 0 end.
Definition start_at_entry (cfgs : list src_cfg) (v : vm) : vm :=
  mkVM (map (fun p => at_pc (snd p) (entry_pc (snd (fst p)))) (combine cfgs (v_procs v)))
       (v_in v) (v_in_valid v) (v_in_recv v) (v_out v) (v_out_valid v) (v_out_recv v)
       (v_iin v) (v_iin_valid v) (v_iin_recv v) (v_iout v) (v_iout_valid v) (v_iout_recv v).
Definition src_steps (cfgs : list src_cfg) : list (pstate -> pstate) :=
  map (fun c => let '(sync, rsize, src) := c in sstep sync rsize src) cfgs.

Definition ext_eqb (v : vm) (o : vobs) : bool :=
  leqb N.eqb (v_out v) (o_out o) && leqb Bool.eqb (v_out_valid v) (o_outv o) && leqb Bool.eqb (v_in_recv v) (o_inr o).

Fixpoint check_src_run (t : bm) (steps : list (pstate -> pstate)) (k : nat) (v : vm) (envs : list env) (obs : list vobs) : option nat :=
  match obs with
  | [] => None
  | o :: obs' =>
      let e := match envs with e :: _ => e | [] => ([], []) end in
      let v' := tick_with t steps (apply_env e v) in
      if ext_eqb v' o then check_src_run t steps (S k) v' (tl envs) obs' else Some k
  end.
Definition check_src (t : bm) (cfgs : list src_cfg) (rbits : list nat) (envs : list env) (obs : list vobs) : option nat :=
  check_src_run t (src_steps cfgs) 0 (start_at_entry cfgs (init_vm t rbits)) envs obs.
(* is the entry label in front of the first instruction of every section? *)
Definition entries_first (cfgs : list src_cfg) : bool :=
  forallb (fun c => Nat.eqb (addr (snd c) (entry_pc (snd c))) 0) cfgs.
