(* Front/Bondgo.v — the code-generation core of the Go-subset compiler (pkg/bondgo: visiter.go,
   expr.go) for register-allocated variables: declarations, assignments, integer literals,
   variables, + and *, and bondgo.IOWrite; together with the allocator's "lowest free register"
   policy (runinfo.go).  [go_eval] is the Go semantics of the same subset with wrap-around at the
   register size. *)
From Coq Require Import List NArith Bool Arith.
From BM Require Import Isa.Sim.
Import ListNotations.

Inductive expr := ELit (v : N) | EVar (x : nat) | EAdd (a b : expr) | EMul (a b : expr).
Inductive stmt :=
| SDecl                         (* var reg_<n> uintN : the next variable index *)
| SAssign (x : nat) (e : expr)
| SWrite (o : nat) (e : expr).  (* bondgo.IOWrite(out_o, e) *)

(* ---------- Go semantics ---------- *)
Fixpoint eval (rsize : N) (env : list N) (e : expr) : N :=
  match e with
  | ELit v => v mod 2 ^ rsize
  | EVar x => nthN env x
  | EAdd a b => (eval rsize env a + eval rsize env b) mod 2 ^ rsize
  | EMul a b => (eval rsize env a * eval rsize env b) mod 2 ^ rsize
  end.

(* environment and the sequence of (output, value) writes *)
Definition go_step (rsize : N) (st : list N * list (nat * N)) (s : stmt) : list N * list (nat * N) :=
  let '(env, outs) := st in
  match s with
  | SDecl => (env ++ [0%N], outs)
  | SAssign x e => (upd x (eval rsize env e) env, outs)
  | SWrite o e => (env, outs ++ [(o, eval rsize env e)])
  end.
Definition go_eval (rsize : N) (p : list stmt) : list N * list (nat * N) := fold_left (go_step rsize) p ([], []).

(* ---------- the compiler ---------- *)
Record cstate := mkCS { busy : list nat; vars : list nat; code : list instr }.

(* Var_assigner, REQ_NEW REGISTER: the lowest index not in use *)
Fixpoint alloc_from (fuel i : nat) (b : list nat) : nat :=
  match fuel with
  | O => i
  | S f => if existsb (Nat.eqb i) b then alloc_from f (S i) b else i
  end.
Definition alloc (b : list nat) : nat := alloc_from (S (length b)) 0 b.
Definition free (r : nat) (b : list nat) : list nat := filter (fun x => negb (Nat.eqb x r)) b.

Definition emit (c : cstate) (i : instr) : cstate := mkCS (busy c) (vars c) (code c ++ [i]).
Definition take (c : cstate) : nat * cstate := let r := alloc (busy c) in (r, mkCS (busy c ++ [r]) (vars c) (code c)).
Definition release (c : cstate) (r : nat) : cstate := mkCS (free r (busy c)) (vars c) (code c).

(* Expr_eval: returns the register holding the value *)
Fixpoint cexpr (c : cstate) (e : expr) : nat * cstate :=
  match e with
  | ELit v => let '(r, c1) := take c in (r, emit c1 (IRset r v))
  | EVar x => let '(r, c1) := take c in (r, emit c1 (ICpy r (nth x (vars c) 0)))
  | EAdd a b => let '(ra, c1) := cexpr c a in let '(rb, c2) := cexpr c1 b in
                (ra, release (emit c2 (IAdd ra rb)) rb)
  | EMul a b => let '(ra, c1) := cexpr c a in let '(rb, c2) := cexpr c1 b in
                (ra, release (emit c2 (IMult ra rb)) rb)
  end.

Definition cstmt (c : cstate) (s : stmt) : cstate :=
  match s with
  | SDecl => let '(r, c1) := take c in emit (mkCS (busy c1) (vars c1 ++ [r]) (code c1)) (IClr r)
  | SAssign x e => let '(r, c1) := cexpr c e in release (emit c1 (ICpy (nth x (vars c) 0) r)) r
  | SWrite o e => let '(r, c1) := cexpr c e in emit c1 (IR2o r o)     (* the temporary is not released *)
  end.

Definition compile (p : list stmt) : cstate := fold_left cstmt p (mkCS [] [] []).

(* well-scoped programs: every variable is declared before use *)
Fixpoint expr_ok (n : nat) (e : expr) : bool :=
  match e with
  | ELit _ => true | EVar x => Nat.ltb x n
  | EAdd a b | EMul a b => expr_ok n a && expr_ok n b
  end.
Fixpoint prog_ok (n : nat) (p : list stmt) : bool :=
  match p with
  | [] => true
  | SDecl :: r => prog_ok (S n) r
  | SAssign x e :: r => Nat.ltb x n && expr_ok n e && prog_ok n r
  | SWrite _ e :: r => expr_ok n e && prog_ok n r
  end.

(* ---------- running the emitted straight-line code on the simulator model ---------- *)
(* the sequence of values written to the outputs, in program order *)
Definition run_step (rsize : N) (st : pstate * list (nat * N)) (i : instr) : pstate * list (nat * N) :=
  let '(p, outs) := st in
  let p' := exec rsize 0 p i in
  (p', match i with IR2o r o => outs ++ [(o, nthN (regs p) r)] | _ => outs end).
Definition run_code (rsize : N) (nregs nouts : nat) (c : list instr) : pstate * list (nat * N) :=
  fold_left (run_step rsize) c (mkP 0 (repeat 0%N nregs) [] [] [] (repeat 0%N nouts) (repeat false nouts) (repeat false nouts) [] [false; false; false], []).

(* the number of registers the code needs: the requirement the compiler reports (C_REGSIZE) *)
Definition max_reg (c : list instr) : nat :=
  fold_left (fun m i => match i with
                        | IRset r _ | IClr r => Nat.max m (S r)
                        | ICpy d s | IAdd d s | IMult d s => Nat.max m (Nat.max (S d) (S s))
                        | IR2o r _ => Nat.max m (S r)
                        | _ => m end) c 0.
