(* Front/FragNet.v — a machine made of the composed sections of a partition: every processor runs whole
   passes of its section, reading the values currently visible on the links that enter it and
   publishing its outputs on the links that leave it; processors take turns in any order.  Registers
   persist from one pass of a processor to its next. *)
From Coq Require Import List NArith Bool Arith.
From BM Require Import Isa.Sim Front.Frag Front.FragWf.
Import ListNotations.

(* the value visible on each instance output port *)
Definition wires := list (list N).
Definition wire (w : wires) (p q : nat) : N := nthN (nth p w []) q.
Definition wires0 (g : graph) : wires := map (fun i => repeat 0%N (length (resout (ifrag i)))) (insts g).

Definition inputs_from (g : graph) (cl : list nat) (xs : list N) (w : wires) : list N :=
  map (fun pj => src_val xs w (nth (snd pj) (isrc (inst_at g (fst pj))) (SExt 0))) (in_ports g cl).

(* processor outputs replace the values of the ports they are numbered for *)
Definition publish (g : graph) (ports : list (nat * nat)) (outs : list N) (w : wires) : wires :=
  map (fun p => map (fun q => match index_of2 (p, q) ports with Some k => nthN outs k | None => wire w p q end)
                    (seq 0 (length (resout (ifrag (inst_at g p))))))
      (seq 0 (length (insts g))).

Record mstate := mkM { mw : wires; mregs : list (list N) }.

Definition step_cp (rs : N) (nregs : nat) (g : graph) (parts : list (list nat)) (progs : list (list instr)) (xs : list N)
                   (m : mstate) (c : nat) : mstate :=
  let cl := nth c parts [] in
  let res := run_pass rs (removelast (nth c progs [])) (inputs_from g cl xs (mw m)) (length (out_ports g cl))
                      (nth c (mregs m) (repeat 0%N nregs)) in
  mkM (publish g (out_ports g cl) (snd res) (mw m)) (upd c (fst res) (mregs m)).

Definition run_sched rs nregs g parts progs xs (sched : list nat) (m : mstate) : mstate :=
  fold_left (step_cp rs nregs g parts progs xs) sched m.

Definition outputs_of (g : graph) (w : wires) : list N := map (fun pq => wire w (fst pq) (snd pq)) (ext_out g).

(* the partition covers every instance once, and each list meets the conditions of the pass theorem *)
Definition partition_ok (g : graph) (parts : list (list nat)) (nregs : nat) : bool :=
  nodupn (concat parts) && forallb (inside (concat parts)) (seq 0 (length (insts g))) &&
  forallb (fun cl => pass_ok g cl nregs (length (out_ports g cl))) parts.
Definition ext_ok (g : graph) : bool :=
  forallb (fun pq => (fst pq <? length (insts g)) && (snd pq <? length (resout (ifrag (inst_at g (fst pq)))))) (ext_out g).

(* [rounds k n]: the round-robin schedule of k processors repeated n times *)
Definition rounds (k n : nat) : list nat := concat (repeat (seq 0 k) n).
