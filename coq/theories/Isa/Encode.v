(* Isa/Encode.v — architectures and the generic, layout-driven model of
   Arch.Assembler_process_line / Opcode.Assembler / Machine.Disassembler / Opcode.Disassembler.
   An opcode's private field layout is *data* (type [layout]); the table of layouts is
   regenerated from pkg/procbuilder/op_*.go on every run (generated/GenLayout.v).
   Assembler and Disassembler layouts are extracted independently of each other. *)
From Coq Require Import List String Ascii NArith Bool Arith Lia.
From BM Require Import Base.Bits Base.Dec.
Import ListNotations.
Local Open Scope list_scope.

Inductive exec_mode := Ha | Vn | Hy.

Record arch : Type := mkArch {
  rsize : nat;              (* register width in bits *)
  rbits : nat;              (* R: register-index bits (2^R registers) *)
  nin : N; nout : N;        (* N inputs, M outputs *)
  lbits : nat; obits : nat; (* L: RAM address bits, O: ROM address bits *)
  ops : list string;        (* opcode names, in the order the architecture numbers them *)
  wordsize : nat;           (* 0 = automatic *)
  mode : exec_mode;
  shared : list string      (* Shared_constraints: the kind of every attached shared object, in order *)
}.

(* shared-object kinds an opcode can name, with the name used in Shared_constraints and the prefix of an operand *)
Inductive shrk := SQueue | SStack | SUart | SKbd | SBarrier | SLfsr8 | SChannel.
Definition shr_name (k : shrk) : string :=
  match k with SQueue => "queue" | SStack => "stack" | SUart => "uart" | SKbd => "kbd" | SBarrier => "barrier"
             | SLfsr8 => "lfsr8" | SChannel => "channel" end%string.
Definition shr_short (k : shrk) : string :=
  match k with SQueue => "q" | SStack => "st" | SUart => "u" | SKbd => "k" | SBarrier => "br" | SLfsr8 => "lfsr8" | SChannel => "ch" end%string.

(* symbolic widths, exactly the sub-expressions the Go code writes *)
Inductive atom := AOp | AR | ARsize | AInb | AOutb | AO | AL | AMaxOL | AShr (k : shrk).
Inductive wexpr :=
| WC (n : nat) | WA (a : atom) | WPlus (x y : wexpr) | WMul (k : nat) (x : wexpr)
| WMode (ha vn hy : wexpr).   (* value selected by arch.Modes[0] *)
(* the recurring `locationBits` of the jump opcodes *)
Definition WLoc : wexpr := WMode (WA AO) (WA AL) (WA AMaxOL).

Inductive fkind := KReg | KNum | KIn | KOut | KShr (k : shrk).
(* printers the Disassemblers apply to get_id(...): register/input/output names,
   strconv.Itoa (signed Go int) or strconv.FormatUint(uint64(..)) *)
Inductive pkind := PReg | PNum | PNumU | PIn | POut | PShr (k : shrk).
Record afield := mkAF { fk : fkind; fw : wexpr }.
Record dfield := mkDF { dlo : wexpr; dhi : wexpr; dk : pkind }.
Record layout := mkLayout {
  lname : string;
  arity : option nat;          (* Some k: the Assembler rejects len(words) != k *)
  afields : list afield;       (* operand k has this kind and is zero-prefixed to this width *)
  padfrom : option wexpr;      (* `for i := <e>; i < rom_word; i++ { result += "0" }` *)
  nomlen : wexpr;              (* Op_get_instruction_len *)
  dfields : list dfield        (* get_id(instr[lo:hi]) and its printer, in output order *)
}.

Definition opbits (a : arch) : nat := sel_bits (N.of_nat (List.length (ops a))).

(* Shared_num / Shared_bits *)
Definition shr_num (a : arch) (k : shrk) : N := N.of_nat (List.length (filter (String.eqb (shr_name k)) (shared a))).
Fixpoint shr_bits_from (fuel bits : nat) (n : N) : nat :=
  match fuel with O => 0 | S f => if (n <=? 2 ^ N.of_nat bits)%N then bits else shr_bits_from f (S bits) n end.
Definition shr_bits (a : arch) (k : shrk) : nat :=
  if (shr_num a k =? 0)%N then 0 else shr_bits_from 255 1 (shr_num a k).

Definition aval (a : arch) (x : atom) : nat :=
  match x with
  | AOp => opbits a | AR => rbits a | ARsize => rsize a
  | AInb => sel_bits (nin a) | AOutb => sel_bits (nout a)
  | AO => obits a | AL => lbits a
  | AMaxOL => if Nat.ltb (lbits a) (obits a) then obits a else lbits a
  | AShr k => shr_bits a k
  end.

Fixpoint weval (a : arch) (e : wexpr) : nat :=
  match e with
  | WC n => n | WA x => aval a x
  | WPlus x y => weval a x + weval a y | WMul k x => k * weval a x
  | WMode h v y => match mode a with Ha => weval a h | Vn => weval a v | Hy => weval a y end
  end.

Section WithTable.
Variable tbl : list layout.
(* Process_number: text of a numeric literal -> its binary digits (no leading zeros) *)
Variable parse_num : string -> option bstr.

Definition find_layout (name : string) : option layout :=
  find (fun l => String.eqb (lname l) name) tbl.

(* Max_word *)
Definition max_word (a : arch) : nat :=
  if Nat.eqb (wordsize a) 0 then
    fold_left (fun now name => match find_layout name with
                               | Some l => Nat.max now (weval a (nomlen l))
                               | None => now end) (ops a) 1
  else wordsize a.

(* "r3" / "i0" / "o2": a one-letter prefix and a canonical decimal below a bound *)
Definition parse_indexed (pre : ascii) (bound : N) (tok : string) : option N :=
  match tok with
  | String c rest => if Ascii.eqb c pre then
                       match parse_canon rest with
                       | Some k => if N.ltb k bound then Some k else None
                       | None => None end
                     else None
  | EmptyString => None
  end.

(* "q1" / "st0" / "lfsr81": the kind's prefix and a canonical decimal below the number of attached objects (Process_shared) *)
Fixpoint strip_prefix (pre s : string) : option string :=
  match pre with
  | EmptyString => Some s
  | String c p => match s with String d r => if Ascii.eqb c d then strip_prefix p r else None | EmptyString => None end
  end.
Definition parse_shr (pre : string) (bound : N) (tok : string) : option N :=
  match strip_prefix pre tok with
  | Some rest => match parse_canon rest with
                 | Some k => if N.ltb k bound then Some k else None
                 | None => None end
  | None => None
  end.

Definition parse_operand (a : arch) (k : fkind) (tok : string) : option bstr :=
  match k with
  | KReg => option_map get_binary (parse_indexed "r"%char (2 ^ N.of_nat (rbits a)) tok)
  | KIn => option_map get_binary (parse_indexed "i"%char (nin a) tok)
  | KOut => option_map get_binary (parse_indexed "o"%char (nout a) tok)
  | KNum => parse_num tok
  | KShr k => option_map get_binary (parse_shr (shr_short k) (shr_num a k) tok)
  end.

Fixpoint asm_fields (a : arch) (fs : list afield) (ws : list string) : option bstr :=
  match fs, ws with
  | [], _ => Some []
  | f :: fs', w :: ws' =>
      match parse_operand a (fk f) w, asm_fields a fs' ws' with
      | Some b, Some r => Some (zeros_prefix (weval a (fw f)) b ++ r)
      | _, _ => None
      end
  | _ :: _, [] => None
  end.

(* Opcode.Assembler *)
Definition asm_op (a : arch) (l : layout) (ws : list string) : option bstr :=
  match arity l with
  | Some k => if Nat.eqb (List.length ws) k then
                match asm_fields a (afields l) ws with
                | Some r => Some (r ++ match padfrom l with
                                       | Some e => repeat false (max_word a - weval a e)
                                       | None => [] end)
                | None => None end
              else None
  | None => match asm_fields a (afields l) ws with
            | Some r => Some (r ++ match padfrom l with
                                   | Some e => repeat false (max_word a - weval a e)
                                   | None => [] end)
            | None => None end
  end.

Fixpoint index_of (name : string) (l : list string) : option nat :=
  match l with
  | [] => None
  | x :: t => if String.eqb x name then Some 0 else option_map S (index_of name t)
  end.

(* Arch.Assembler_process_line on the already lower-cased, split line (first word = opcode).
   Includes the width check added by the "fix: assembler rejects operands ..." commit. *)
Definition asm_line (a : arch) (ws : list string) : option bstr :=
  match ws with
  | [] => None
  | name :: args =>
      match index_of name (ops a), find_layout name with
      | Some i, Some l =>
          match asm_op a l args with
          | Some r => let w := zeros_prefix (opbits a) (get_binary (N.of_nat i)) ++ r in
                      if Nat.eqb (List.length w) (max_word a) then Some w else None
          | None => None end
      | _, _ => None
      end
  end.

Definition slice (s : bstr) (lo hi : nat) : option bstr :=
  if Nat.leb lo hi && Nat.leb hi (List.length s) then Some (firstn (hi - lo) (skipn lo s)) else None.

(* strconv.Itoa(get_id(...)): get_id computes in a 64-bit signed Go int *)
Definition print_goint (v : N) : string :=
  let m := (v mod 2 ^ 64)%N in
  if (m <? 2 ^ 63)%N then print_dec m else ("-" ++ print_dec (2 ^ 64 - m))%string.

Definition print_field (k : pkind) (v : N) : string :=
  match k with
  | PReg => ("r" ++ print_goint v)%string | PIn => ("i" ++ print_goint v)%string | POut => ("o" ++ print_goint v)%string
  | PNum => print_goint v
  | PNumU => print_dec (v mod 2 ^ 64)
  | PShr k => (shr_short k ++ print_goint v)%string
  end.

Fixpoint disasm_fields (a : arch) (ds : list dfield) (instr : bstr) : option (list string) :=
  match ds with
  | [] => Some []
  | d :: ds' =>
      match slice instr (weval a (dlo d)) (weval a (dhi d)), disasm_fields a ds' instr with
      | Some b, Some r => Some (print_field (dk d) (get_id b) :: r)
      | _, _ => None
      end
  end.

(* Machine.Disassembler for one word: opcode name followed by the printed operands *)
Definition disasm_word (a : arch) (w : bstr) : option (list string) :=
  if Nat.leb (opbits a) (List.length w) then
    match nth_error (ops a) (N.to_nat (get_id (firstn (opbits a) w))) with
    | Some name =>
        match find_layout name with
        | Some l => option_map (cons name) (disasm_fields a (dfields l) (skipn (opbits a) w))
        | None => None end
    | None => None
    end
  else None.

End WithTable.

(* ---------- symbolic consistency of one layout (decides agreement for every architecture) ---------- *)

Definition all_atoms := [AOp; AR; ARsize; AInb; AOutb; AO; AL; AMaxOL; AShr SQueue; AShr SStack; AShr SUart; AShr SKbd; AShr SBarrier; AShr SLfsr8; AShr SChannel].
Definition atom_eqb (x y : atom) : bool :=
  match x, y with
  | AOp, AOp | AR, AR | ARsize, ARsize | AInb, AInb | AOutb, AOutb | AO, AO | AL, AL | AMaxOL, AMaxOL => true
  | AShr j, AShr k => match j, k with
                      | SQueue, SQueue | SStack, SStack | SUart, SUart | SKbd, SKbd | SBarrier, SBarrier | SLfsr8, SLfsr8 | SChannel, SChannel => true
                      | _, _ => false end
  | _, _ => false end.

Fixpoint wconst (m : exec_mode) (e : wexpr) : nat :=
  match e with
  | WC n => n | WA _ => 0 | WPlus x y => wconst m x + wconst m y | WMul k x => k * wconst m x
  | WMode h v y => match m with Ha => wconst m h | Vn => wconst m v | Hy => wconst m y end
  end.
Fixpoint wcoef (m : exec_mode) (e : wexpr) (t : atom) : nat :=
  match e with
  | WC _ => 0 | WA x => if atom_eqb x t then 1 else 0
  | WPlus x y => wcoef m x t + wcoef m y t | WMul k x => k * wcoef m x t
  | WMode h v y => match m with Ha => wcoef m h t | Vn => wcoef m v t | Hy => wcoef m y t end
  end.
Definition wexpr_eqb_m (m : exec_mode) (x y : wexpr) : bool :=
  Nat.eqb (wconst m x) (wconst m y) && forallb (fun t => Nat.eqb (wcoef m x t) (wcoef m y t)) all_atoms.
(* equal as linear forms in every execution mode, hence equal for every architecture *)
Definition wexpr_eqb (x y : wexpr) : bool :=
  wexpr_eqb_m Ha x y && wexpr_eqb_m Vn x y && wexpr_eqb_m Hy x y.

Definition kind_agree (x : fkind) (y : pkind) : bool :=
  match x, y with
  | KReg, PReg | KNum, PNum | KNum, PNumU | KIn, PIn | KOut, POut => true
  | KShr j, PShr k => atom_eqb (AShr j) (AShr k)
  | _, _ => false end.

(* dfields must be the consecutive partition induced by the afields, kinds matching *)
Fixpoint fields_agree (off : wexpr) (fs : list afield) (ds : list dfield) : bool :=
  match fs, ds with
  | [], [] => true
  | f :: fs', d :: ds' =>
      kind_agree (fk f) (dk d) && wexpr_eqb (dlo d) off && wexpr_eqb (dhi d) (WPlus off (fw f)) &&
      fields_agree (WPlus off (fw f)) fs' ds'
  | _, _ => false
  end.

Definition sum_widths (fs : list afield) : wexpr := fold_right (fun f e => WPlus (fw f) e) (WC 0) fs.

(* what the round-trip theorems need: arity checked, padding starts right after the fields,
   Disassembler slices = Assembler fields *)
Definition layout_rt_ok (l : layout) : bool :=
  match arity l with Some k => Nat.eqb k (List.length (afields l)) | None => Nat.eqb (List.length (afields l)) 0 end &&
  match padfrom l with Some e => wexpr_eqb e (WPlus (WA AOp) (sum_widths (afields l))) | None => false end &&
  fields_agree (WC 0) (afields l) (dfields l).

(* Op_get_instruction_len is the width the Assembler really needs (so Max_word is large enough) *)
Definition nomlen_ok (l : layout) : bool :=
  wexpr_eqb (nomlen l) (WPlus (WA AOp) (sum_widths (afields l))).
