(* Isa/EncodeCheck.v — executable comparison for the C03 correspondence check *)
From Coq Require Import List String Ascii NArith Bool Arith.
From BM Require Import Base.Bits Base.Dec Isa.Encode Front.NumLit.
Import ListNotations.

Fixpoint bits_of_string (s : string) : bstr :=
  match s with
  | EmptyString => []
  | String c r => (if Ascii.eqb c "1" then true else false) :: bits_of_string r
  end.

Fixpoint bstr_eqb (a b : bstr) : bool :=
  match a, b with
  | [], [] => true
  | x :: a', y :: b' => Bool.eqb x y && bstr_eqb a' b'
  | _, _ => false
  end.

Fixpoint toks_eqb (a b : list string) : bool :=
  match a, b with
  | [], [] => true
  | x :: a', y :: b' => String.eqb x y && toks_eqb a' b'
  | _, _ => false
  end.

(* one observed line: the split lower-cased words, the assembled word ("" = rejected),
   the tokens of its disassembly *)
Definition obs := (list string * string * list string)%type.

(* codes: 1 accept/reject or word differs, 2 disassembly differs *)
Definition check_line (tbl : list layout) (a : arch) (o : obs) : list nat :=
  let '(ws, word, dis) := o in
  match asm_line tbl process_number a ws with
  | None => if String.eqb word "" then [] else [1]
  | Some w =>
      if String.eqb word "" then [1]
      else if negb (bstr_eqb w (bits_of_string word)) then [1]
      else match disasm_word tbl a w with
           | Some d => if toks_eqb d dis then [] else [2]
           | None => [2]
           end
  end.

Fixpoint check_lines (tbl : list layout) (a : arch) (k : nat) (os : list obs) : list (nat * nat) :=
  match os with
  | [] => []
  | o :: r => map (fun c => (k, c)) (check_line tbl a o) ++ check_lines tbl a (S k) r
  end.

Definition check_arch (tbl : list layout) (c : arch * nat * nat * list obs) : list (nat * nat) :=
  let '(a, ob, mw, os) := c in
  (if Nat.eqb (opbits a) ob then [] else [(0, 8)]) ++
  (if Nat.eqb (max_word tbl a) mw then [] else [(0, 9)]) ++
  check_lines tbl a 0 os.
