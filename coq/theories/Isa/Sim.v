(* Isa/Sim.v — model of the instruction-set simulator: procbuilder.VM.Step and the Simulate
   methods of the modelled opcodes, on decoded instructions.  Each Simulate is transcribed as
   written (sub and the 32/64-bit cases of the bitwise opcodes were stubs before fixes 9d21ff6 and
   ca7d3ab). *)
From Coq Require Import List NArith Bool Arith.
Import ListNotations.
Local Open Scope N_scope.

Inductive instr :=
| IAdd (d s : nat) | ISub (d s : nat) | IMult (d s : nat) | ICpy (d s : nat)
| IAnd (d s : nat) | IOr (d s : nat) | IXor (d s : nat) | INot (d s : nat)
| INand (d s : nat) | INor (d s : nat) | IXnor (d s : nat)
| IClr (r : nat) | IInc (r : nat) | IDec (r : nat)
| IRset (r : nat) (v : N)
| IJ (t : N) | IJz (r : nat) (t : N)
| INop
| II2r (r i : nat) | IR2o (r o : nat)
| II2rw (r i : nat) | IR2owa (r o : nat)
| IAddp (d s : nat) | IMultp (d s : nat).

Record pstate := mkP {
  pc : N;
  regs : list N;
  inputs : list N; in_valid : list bool; in_recv : list bool;
  outputs : list N; out_valid : list bool; out_recv : list bool;
  deferred : list nat;         (* inputs with a pending waitRecvI2rw *)
  phases : list bool           (* per-processor pipeline phase of addp, multp, divp (vm.Extra_states) *)
}.

Definition nthN (l : list N) (k : nat) : N := nth k l 0.
Definition nthB (l : list bool) (k : nat) : bool := nth k l false.
Fixpoint upd {A} (k : nat) (v : A) (l : list A) : list A :=
  match l, k with [], _ => [] | _ :: t, O => v :: t | x :: t, S k' => x :: upd k' v t end.

Definition init_pstate (rbits : nat) (n m : nat) : pstate :=
  mkP 0 (repeat 0 (2 ^ rbits)) (repeat 0 n) (repeat false n) (repeat false n)
      (repeat 0 m) (repeat false m) (repeat false m) [] [false; false; false].

Definition with_pc (p : pstate) (v : N) : pstate :=
  mkP v (regs p) (inputs p) (in_valid p) (in_recv p) (outputs p) (out_valid p) (out_recv p) (deferred p) (phases p).
Definition with_reg (p : pstate) (r : nat) (v : N) : pstate :=
  mkP (pc p) (upd r v (regs p)) (inputs p) (in_valid p) (in_recv p) (outputs p) (out_valid p) (out_recv p) (deferred p) (phases p).
Definition next_pc (p : pstate) : pstate := with_pc p (pc p + 1).
Definition with_phase (p : pstate) (k : nat) (b : bool) : pstate :=
  mkP (pc p) (regs p) (inputs p) (in_valid p) (in_recv p) (outputs p) (out_valid p) (out_recv p) (deferred p) (upd k b (phases p)).

Definition M (rsize : N) : N := 2 ^ rsize.
Definition small (rsize : N) : bool := (rsize =? 8) || (rsize =? 16).

Definition exec (rsize : N) (proglen : N) (p : pstate) (i : instr) : pstate :=
  let R := fun k => nthN (regs p) k in
  let bin (d : nat) (v : N) := next_pc (with_reg p d (v mod M rsize)) in
  let logic (d : nat) (v : N) := next_pc (with_reg p d v) in
  let inv (v : N) := N.lxor v (N.ones rsize) in
  match i with
  | IAdd d s => bin d (R d + R s)
  | ISub d s => bin d (R d + M rsize - R s mod M rsize)
  | IMult d s => bin d (R d * R s)
  | ICpy d s => next_pc (with_reg p d (R s))
  | IAnd d s => logic d (N.land (R d) (R s))
  | IOr d s => logic d (N.lor (R d) (R s))
  | IXor d s => logic d (N.lxor (R d) (R s))
  | INot d s => logic d (inv (R s))
  | INand d s => logic d (inv (N.land (R d) (R s)))
  | INor d s => logic d (inv (N.lor (R d) (R s)))
  | IXnor d s => logic d (inv (N.lxor (R d) (R s)))
  | IClr r => next_pc (with_reg p r 0)
  | IInc r => bin r (R r + 1)
  | IDec r => bin r (R r + M rsize - 1)
  | IRset r v => next_pc (with_reg p r (v mod M rsize))
  | IJ t => if t <? proglen then with_pc p t else next_pc p
  | IJz r t => if R r =? 0 then with_pc p t else next_pc p
  | INop => next_pc p
  | II2r r k => next_pc (with_reg p r (nthN (inputs p) k))
  | IR2o r k => next_pc (mkP (pc p) (regs p) (inputs p) (in_valid p) (in_recv p)
                             (upd k (R r) (outputs p)) (out_valid p) (out_recv p) (deferred p) (phases p))
  | II2rw r k =>
      if nthB (in_valid p) k then
        mkP (pc p + 1) (upd r (nthN (inputs p) k) (regs p)) (inputs p) (in_valid p) (upd k true (in_recv p))
            (outputs p) (out_valid p) (out_recv p)
            (if existsb (Nat.eqb k) (deferred p) then deferred p else deferred p ++ [k]) (phases p)
      else mkP (pc p) (regs p) (inputs p) (in_valid p) (upd k false (in_recv p))
               (outputs p) (out_valid p) (out_recv p) (deferred p) (phases p)
  | IAddp d s => if nthB (phases p) 0 then with_phase (bin d (R d + R s)) 0 false else with_phase p 0 true
  | IMultp d s => if nthB (phases p) 1 then with_phase (bin d (R d * R s)) 1 false else with_phase p 1 true
  | IR2owa r k =>
      let outs := upd k (R r) (outputs p) in
      if nthB (out_recv p) k then
        mkP (pc p + 1) (regs p) (inputs p) (in_valid p) (in_recv p) outs (upd k false (out_valid p)) (out_recv p) (deferred p) (phases p)
      else mkP (pc p) (regs p) (inputs p) (in_valid p) (in_recv p) outs (upd k true (out_valid p)) (out_recv p) (deferred p) (phases p)
  end.

(* ExecuteDeferredInstructions: every pending waitRecvI2rw whose input is no longer valid drops
   the received flag and is removed (entries are independent, so map order is irrelevant) *)
Definition run_deferred (p : pstate) : pstate :=
  let done := filter (fun k => negb (nthB (in_valid p) k)) (deferred p) in
  let keep := filter (fun k => nthB (in_valid p) k) (deferred p) in
  mkP (pc p) (regs p) (inputs p) (in_valid p)
      (fold_left (fun l k => upd k false l) done (in_recv p))
      (outputs p) (out_valid p) (out_recv p) keep (phases p).

(* procbuilder.VM.Step without delay distributions *)
Definition pstep (rsize : N) (prog : list instr) (p : pstate) : pstate :=
  let p1 := run_deferred p in
  match nth_error prog (N.to_nat (pc p1)) with
  | Some i => exec rsize (N.of_nat (length prog)) p1 i
  | None => p1        (* pc = len: halted *)
  end.
