(* Vlog/Sem.v — two-state, cycle-based semantics of a flat (instance-free) module.
   This file *defines* the meaning of emitted Verilog for C01/C02/C04/C13 and is in the trusted
   base (there is no reference simulator in the sandbox).  Scope: wires/regs/memories, localparams,
   continuous assignments, clocked always blocks (every block with an edge in its sensitivity list
   fires on every cycle; one clock domain), initial blocks, blocking and non-blocking assignment,
   if / case / constant-bound for, Verilog's context-determined expression widths.  x/z values are
   not modelled (they read as 0); delays and system tasks are ignored. *)
From Coq Require Import List NArith PArith Bool FMapPositive.
From BM Require Import Vlog.Syntax.
Import ListNotations.
Local Open Scope N_scope.

Module PM := PositiveMap.

Inductive err := Unsupported (what : nat) | CombLoop | FuelOut | BadDecl (x : ident) | BadLhs.
Inductive res (A : Type) := Ok (a : A) | Err (e : err).
Arguments Ok {A} a. Arguments Err {A} e.
Definition bind {A B} (r : res A) (f : A -> res B) : res B := match r with Ok a => f a | Err e => Err e end.
Notation "'do' x <- r ; k" := (bind r (fun x => k)) (at level 200, x pattern, r at level 100, k at level 200).

Inductive vkind := VNet | VReg | VMem (lo hi : N).
Record vinfo := mkVI { vi_width : N; vi_lsb : N; vi_kind : vkind }.

Record env := mkEnv {
  e_vars : PM.t vinfo;
  e_params : PM.t (option N * N)         (* declared width (if any) and value *)
}.

Record state := mkSt { vals : PM.t N; mems : PM.t (PM.t N) }.
Definition empty_state : state := mkSt (PM.empty N) (PM.empty (PM.t N)).

Definition mask (w v : N) : N := N.land v (N.ones w).
Definition key (i : N) : positive := N.succ_pos i.

Definition get (s : state) (x : ident) : N := match PM.find x (vals s) with Some v => v | None => 0 end.
Definition getm (s : state) (x : ident) (i : N) : N :=
  match PM.find x (mems s) with
  | Some m => match PM.find (key i) m with Some v => v | None => 0 end
  | None => 0 end.

Section Eval.
Variable E : env.
Variable s : state.

Definition var_info (x : ident) : option vinfo := PM.find x (e_vars E).
Definition param (x : ident) : option (option N * N) := PM.find x (e_params E).

Definition read (x : ident) : N :=
  match param x with Some (_, v) => v | None => get s x end.

Definition num_width (w : option N) (v : N) : N :=
  match w with Some k => k | None => N.max 32 (N.size v) end.

(* self-determined width *)
Fixpoint ewidth (e : expr) : N :=
  match e with
  | ENum w v => num_width w v
  | EId x => match param x with
             | Some (Some w, _) => w
             | Some (None, v) => N.max 32 (N.size v)
             | None => match var_info x with Some i => vi_width i | None => 1 end end
  | EIndex x _ => match var_info x with
                  | Some i => match vi_kind i with VMem _ _ => vi_width i | _ => 1 end
                  | None => 1 end
  | EPart _ hi lo => match hi, lo with
                     | ENum _ h, ENum _ l => h - l + 1
                     | _, _ => 1 end
  | EUn (UNot | URAnd | UROr | URXor | URNand | URNor | URXnor) _ => 1
  | EUn _ a => ewidth a
  | EBin (BEq | BNe | BLt | BLe | BGt | BGe | BLAnd | BLOr) _ _ => 1
  | EBin (BShl | BShr | BPow) a _ => ewidth a
  | EBin _ a b => N.max (ewidth a) (ewidth b)
  | ECond _ a b => N.max (ewidth a) (ewidth b)
  | EConcat l => fold_right (fun x acc => ewidth x + acc) 0 l
  | ERepl n x => match n with ENum _ k => k * ewidth x | _ => ewidth x end
  | EOther _ => 1
  end.

Definition b2n (b : bool) : N := if b then 1 else 0.
Definition parity (v : N) : N := N.of_nat (length (filter (fun b => b) (map (N.testbit v) (map N.of_nat (seq 0 (N.to_nat (N.size v))))))) mod 2.

(* value at context width W (operands of context-determined operators are evaluated at W) *)
Fixpoint eval (W : N) (e : expr) : N :=
  match e with
  | ENum _ v => mask W v
  | EId x => mask W (read x)
  | EIndex x i =>
      match var_info x with
      | Some vi => match vi_kind vi with
                   | VMem _ _ => mask W (getm s x (eval (ewidth i) i))
                   | _ => let k := eval (ewidth i) i in
                          if k <? vi_lsb vi then 0 else b2n (N.testbit (read x) (k - vi_lsb vi)) end
      | None => 0 end
  | EPart x hi lo =>
      match hi, lo, var_info x with
      | ENum _ h, ENum _ l, Some vi =>
          mask W (mask (h - l + 1) (N.shiftr (read x) (l - vi_lsb vi)))
      | ENum _ h, ENum _ l, None => mask W (mask (h - l + 1) (N.shiftr (read x) l))   (* part select of a parameter *)
      | _, _, _ => 0 end
  | EUn o a =>
      match o with
      | UNot => b2n (eval (ewidth a) a =? 0)
      | UBNot => mask W (N.lxor (eval W a) (N.ones W))
      | UNeg => mask W (2 ^ W - eval W a)
      | UPlus => eval W a
      | URAnd => let w := ewidth a in b2n (eval w a =? N.ones w)
      | UROr => b2n (negb (eval (ewidth a) a =? 0))
      | URXor => parity (eval (ewidth a) a)
      | URNand => let w := ewidth a in b2n (negb (eval w a =? N.ones w))
      | URNor => b2n (eval (ewidth a) a =? 0)
      | URXnor => 1 - parity (eval (ewidth a) a)
      end
  | EBin o a b =>
      let cw := N.max (ewidth a) (ewidth b) in
      match o with
      | BAdd => mask W (eval W a + eval W b)
      | BSub => mask W (eval W a + 2 ^ W - eval W b)
      | BMul => mask W (eval W a * eval W b)
      | BDiv => let d := eval W b in if d =? 0 then 0 else mask W (eval W a / d)
      | BMod => let d := eval W b in if d =? 0 then 0 else mask W (eval W a mod d)
      | BPow => mask W (eval W a ^ eval (ewidth b) b)
      | BEq => b2n (eval cw a =? eval cw b)
      | BNe => b2n (negb (eval cw a =? eval cw b))
      | BLt => b2n (eval cw a <? eval cw b)
      | BLe => b2n (eval cw a <=? eval cw b)
      | BGt => b2n (eval cw b <? eval cw a)
      | BGe => b2n (eval cw b <=? eval cw a)
      | BLAnd => b2n (negb (eval (ewidth a) a =? 0) && negb (eval (ewidth b) b =? 0))
      | BLOr => b2n (negb (eval (ewidth a) a =? 0) || negb (eval (ewidth b) b =? 0))
      | BAnd => N.land (eval W a) (eval W b)
      | BOr => N.lor (eval W a) (eval W b)
      | BXor => N.lxor (eval W a) (eval W b)
      | BXnor => mask W (N.lxor (N.lxor (eval W a) (eval W b)) (N.ones W))
      | BShl => mask W (N.shiftl (eval W a) (eval (ewidth b) b))
      | BShr => N.shiftr (eval W a) (eval (ewidth b) b)
      end
  | ECond c a b => if eval (ewidth c) c =? 0 then eval W b else eval W a
  | EConcat l =>
      mask W (fold_left (fun acc x => let w := ewidth x in N.lor (N.shiftl acc w) (eval w x)) l 0)
  | ERepl n x =>
      match n with
      | ENum _ k => let w := ewidth x in let v := eval w x in
                    mask W (fold_left (fun acc _ => N.lor (N.shiftl acc w) v) (seq 0 (N.to_nat k)) 0)
      | _ => 0 end
  | EOther _ => 0
  end.

(* evaluation as an r-value assigned to something of width lw *)
Definition eval_for (lw : N) (e : expr) : N := mask lw (eval (N.max lw (ewidth e)) e).
Definition truth (e : expr) : bool := negb (eval (ewidth e) e =? 0).

(* ---- assignment targets ---- *)
Inductive upd := UVar (x : ident) (lo w : N) (v : N) | UMem (x : ident) (i : N) (v : N).

Fixpoint lhs_width (l : expr) : N :=
  match l with
  | EConcat items => fold_right (fun x acc => lhs_width x + acc) 0 items
  | _ => ewidth l
  end.

Fixpoint resolve (l : expr) (v : N) : list upd :=
  match l with
  | EId x => match var_info x with Some vi => [UVar x 0 (vi_width vi) v] | None => [] end
  | EIndex x i =>
      match var_info x with
      | Some vi => match vi_kind vi with
                   | VMem lo hi => let k := eval (ewidth i) i in
                                   if (lo <=? k) && (k <=? hi) then [UMem x k (mask (vi_width vi) v)] else []
                   | _ => let k := eval (ewidth i) i in
                          if k <? vi_lsb vi then [] else [UVar x (k - vi_lsb vi) 1 v] end
      | None => [] end
  | EPart x (ENum _ h) (ENum _ lo) =>
      match var_info x with Some vi => [UVar x (lo - vi_lsb vi) (h - lo + 1) v] | None => [] end
  | EConcat items =>
      (* rightmost item takes the low bits *)
      fst (fold_right (fun x (acc : list upd * N) =>
                         let '(us, rest) := acc in
                         let w := lhs_width x in
                         (resolve x (mask w rest) ++ us, N.shiftr rest w)) ([], v) items)
  | _ => []
  end.

End Eval.

Definition apply_upd (E : env) (s : state) (u : upd) : state :=
  match u with
  | UVar x lo w v =>
      let width := match PM.find x (e_vars E) with Some vi => vi_width vi | None => 0 end in
      let old := get s x in
      let cleared := N.ldiff old (N.shiftl (N.ones w) lo) in
      let new := mask width (N.lor cleared (N.shiftl (mask w v) lo)) in
      mkSt (PM.add x new (vals s)) (mems s)
  | UMem x i v =>
      let m := match PM.find x (mems s) with Some m => m | None => PM.empty N end in
      mkSt (vals s) (PM.add x (PM.add (key i) v m) (mems s))
  end.
Definition apply_upds (E : env) (s : state) (us : list upd) : state := fold_left (apply_upd E) us s.

(* ---- processes ---- *)
Record pout := mkPout { p_cur : state; p_bl : list upd; p_nba : list upd }.

Fixpoint exec (E : env) (fuel : nat) (p : pout) (st : stmt) {struct fuel} : res pout :=
  match fuel with
  | O => Err FuelOut
  | S f =>
      match st with
      | SNop => Ok p
      | SBlock l => fold_left (fun r x => do q <- r; exec E f q x) l (Ok p)
      | SNba l r =>
          let us := resolve E (p_cur p) l (eval_for E (p_cur p) (lhs_width E l) r) in
          Ok (mkPout (p_cur p) (p_bl p) (p_nba p ++ us))
      | SBa l r =>
          let us := resolve E (p_cur p) l (eval_for E (p_cur p) (lhs_width E l) r) in
          Ok (mkPout (apply_upds E (p_cur p) us) (p_bl p ++ us) (p_nba p))
      | SIf c t e =>
          if truth E (p_cur p) c then exec E f p t
          else match e with Some x => exec E f p x | None => Ok p end
      | SCase sel arms dflt =>
          let ws := ewidth E sel in
          let hit (lbl : expr) := let w := N.max ws (ewidth E lbl) in
                                  eval E (p_cur p) w sel =? eval E (p_cur p) w lbl in
          match find (fun a => existsb hit (fst a)) arms with
          | Some a => exec E f p (snd a)
          | None => match dflt with Some x => exec E f p x | None => Ok p end
          end
      | SFor init cond step body =>
          do q <- exec E f p init;
          (fix loop (k : nat) (q : pout) : res pout :=
             match k with
             | O => Err FuelOut
             | S k' => if truth E (p_cur q) cond then
                         do q1 <- exec E f q body; do q2 <- exec E f q1 step; loop k' q2
                       else Ok q
             end) 5000%nat q
      | SOther _ _ => Err (Unsupported 1)
      end
  end.

Definition run_proc (E : env) (s : state) (body : stmt) : res pout := exec E 2000 (mkPout s [] []) body.

(* ---- elaborated module ---- *)
Record emod := mkEmod {
  em_env : env;
  em_assigns : list (expr * expr);
  em_clocked : list stmt;
  em_initial : list stmt;
  em_inputs : list ident;
  em_roots : list ident                 (* targets of continuous assignments, for the settle fixpoint *)
}.

Fixpoint lhs_roots (l : expr) : list ident :=
  match l with
  | EId x | EIndex x _ | EPart x _ _ => [x]
  | EConcat items => flat_map lhs_roots items
  | _ => []
  end.

Definition settle_pass (M : emod) (s : state) : state :=
  fold_left (fun s a => let E := em_env M in
                        apply_upds E s (resolve E s (fst a) (eval_for E s (lhs_width E (fst a)) (snd a))))
            (em_assigns M) s.

Fixpoint settle (M : emod) (fuel : nat) (s : state) : res state :=
  match fuel with
  | O => Err CombLoop
  | S f =>
      let s' := settle_pass M s in
      if forallb (fun x => get s x =? get s' x) (em_roots M) then Ok s' else settle M f s'
  end.

Definition set_inputs (M : emod) (ins : list (ident * N)) (s : state) : state :=
  fold_left (fun s iv => let '(x, v) := iv in
                         let w := match PM.find x (e_vars (em_env M)) with Some vi => vi_width vi | None => 0 end in
                         mkSt (PM.add x (mask w v) (vals s)) (mems s)) ins s.

Definition settle_fuel (M : emod) : nat := S (S (length (em_assigns M))).

Definition posedge (M : emod) (s : state) : res state :=
  let E := em_env M in
  do outs <- fold_left (fun r body => do acc <- r; do o <- run_proc E s body; Ok (acc ++ [o])) (em_clocked M) (Ok []);
  let s1 := fold_left (fun s o => apply_upds E s (p_bl o)) outs s in
  Ok (fold_left (fun s o => apply_upds E s (p_nba o)) outs s1).

(* one clock cycle: drive the inputs, let the nets settle, take the edge, settle again *)
Definition cycle (M : emod) (ins : list (ident * N)) (s : state) : res state :=
  do s1 <- settle M (settle_fuel M) (set_inputs M ins s);
  do s2 <- posedge M s1;
  settle M (settle_fuel M) s2.

Definition init_state (M : emod) : res state :=
  let E := em_env M in
  fold_left (fun r body => do s <- r; do o <- run_proc E s body;
                           Ok (apply_upds E (apply_upds E s (p_bl o)) (p_nba o)))
            (em_initial M) (Ok empty_state).

(* ---- elaboration of a flat module ---- *)
Definition const_eval (ps : PM.t (option N * N)) (e : expr) : N :=
  let E := mkEnv (PM.empty vinfo) ps in eval E empty_state (N.max 32 (ewidth E e)) e.

Fixpoint expr_ok (e : expr) : bool :=
  match e with
  | ENum _ _ | EId _ => true
  | EIndex _ i => expr_ok i
  | EPart _ (ENum _ h) (ENum _ l) => (l <=? h) && (h <? 65536)    (* also rejects negative bounds, which fold to huge numbers *)
  | EPart _ _ _ => false
  | EUn _ a => expr_ok a
  | EBin _ a b => expr_ok a && expr_ok b
  | ECond c a b => expr_ok c && expr_ok a && expr_ok b
  | EConcat l => forallb expr_ok l
  | ERepl (ENum _ n) x => (n <? 65536) && expr_ok x
  | ERepl _ _ => false
  | EOther _ => false
  end.

Fixpoint stmt_ok (st : stmt) : bool :=
  match st with
  | SNop => true
  | SBlock l => forallb stmt_ok l
  | SNba l r | SBa l r => expr_ok l && expr_ok r
  | SIf c t e => expr_ok c && stmt_ok t && match e with Some x => stmt_ok x | None => true end
  | SCase sel arms d => expr_ok sel && forallb (fun a => forallb expr_ok (fst a) && stmt_ok (snd a)) arms &&
                        match d with Some x => stmt_ok x | None => true end
  | SFor i c st b => stmt_ok i && expr_ok c && stmt_ok st && stmt_ok b
  | SOther _ _ => false
  end.

(* part-select bounds written with parameters are folded to literals first *)
Fixpoint fold_expr (ps : PM.t (option N * N)) (e : expr) : expr :=
  match e with
  | EPart x hi lo => EPart x (ENum None (const_eval ps hi)) (ENum None (const_eval ps lo))
  | EIndex x i => EIndex x (fold_expr ps i)
  | EUn o a => EUn o (fold_expr ps a)
  | EBin o a b => EBin o (fold_expr ps a) (fold_expr ps b)
  | ECond c a b => ECond (fold_expr ps c) (fold_expr ps a) (fold_expr ps b)
  | EConcat l => EConcat (map (fold_expr ps) l)
  | ERepl n x => ERepl (ENum None (const_eval ps n)) (fold_expr ps x)
  | _ => e
  end.
Fixpoint fold_stmt (ps : PM.t (option N * N)) (st : stmt) : stmt :=
  match st with
  | SBlock l => SBlock (map (fold_stmt ps) l)
  | SNba l r => SNba (fold_expr ps l) (fold_expr ps r)
  | SBa l r => SBa (fold_expr ps l) (fold_expr ps r)
  | SIf c t e => SIf (fold_expr ps c) (fold_stmt ps t) (option_map (fold_stmt ps) e)
  | SCase sel arms d => SCase (fold_expr ps sel) (map (fun a => (map (fold_expr ps) (fst a), fold_stmt ps (snd a))) arms)
                              (option_map (fold_stmt ps) d)
  | SFor i c s b => SFor (fold_stmt ps i) (fold_expr ps c) (fold_stmt ps s) (fold_stmt ps b)
  | _ => st
  end.

Definition is_reg_kind (ks : list dkind) : bool :=
  existsb (fun k => match k with DReg | DInteger => true | _ => false end) ks.
Definition is_input (ks : list dkind) : bool := existsb (fun k => match k with DInput => true | _ => false end) ks.

Definition has_edge (sn : sens) : bool :=
  match sn with SEdges l => existsb (fun p => match fst p with Posedge | Negedge => true | Level => false end) l | _ => false end.

Definition elaborate (m : module) : res emod :=
  let step (acc : res (emod * PM.t (option N * N))) (it : item) :=
      do a <- acc;
      let '(M, ps) := a in
      let E := em_env M in
      match it with
      | IParam _ rng x v =>
          let w := match rng with Some (hi, lo) => Some (const_eval ps hi - const_eval ps lo + 1)
                                | None => match v with ENum (Some k) _ => Some k | _ => None end end in
          let ps' := PM.add x (w, const_eval ps v) ps in
          Ok (mkEmod (mkEnv (e_vars E) ps') (em_assigns M) (em_clocked M) (em_initial M) (em_inputs M) (em_roots M), ps')
      | IDecl d =>
          let '(w, lsb) := match d_range d with
                           | Some (hi, lo) => let h := const_eval ps hi in let l := const_eval ps lo in
                                              if l <=? h then (h - l + 1, l) else (l - h + 1, h)
                           | None => if existsb (fun k => match k with DInteger => true | _ => false end) (d_kinds d)
                                     then (32, 0) else (1, 0) end in
          match d_dims d with
          | _ :: _ :: _ => Err (Unsupported 2)
          | dims =>
              let kind := match dims with
                          | [(a, b)] => let x := const_eval ps a in let y := const_eval ps b in VMem (N.min x y) (N.max x y)
                          | _ => if is_reg_kind (d_kinds d) then VReg else VNet end in
              (* a second declaration of the same name (input x; wire x;) keeps the first width *)
              let vars' := match PM.find (d_name d) (e_vars E) with
                           | Some old => match vi_kind old, kind with
                                         | VNet, VReg => PM.add (d_name d) (mkVI (vi_width old) (vi_lsb old) VReg) (e_vars E)
                                         | _, _ => e_vars E end
                           | None => PM.add (d_name d) (mkVI w lsb kind) (e_vars E) end in
              let inits := match d_init d with Some e => [SBa (EId (d_name d)) (fold_expr ps e)] | None => [] end in
              let ins := if is_input (d_kinds d) then [d_name d] else [] in
              Ok (mkEmod (mkEnv vars' (e_params E)) (em_assigns M) (em_clocked M) (em_initial M ++ inits)
                         (em_inputs M ++ ins) (em_roots M), ps)
          end
      | IAssign l r =>
          let l' := fold_expr ps l in let r' := fold_expr ps r in
          if expr_ok l' && expr_ok r' then
            Ok (mkEmod E (em_assigns M ++ [(l', r')]) (em_clocked M) (em_initial M) (em_inputs M) (em_roots M ++ lhs_roots l'), ps)
          else Err (Unsupported 3)
      | IAlways sn body =>
          let b := fold_stmt ps body in
          if has_edge sn && stmt_ok b then
            Ok (mkEmod E (em_assigns M) (em_clocked M ++ [b]) (em_initial M) (em_inputs M) (em_roots M), ps)
          else Err (Unsupported 4)
      | IInitial body =>
          let b := fold_stmt ps body in
          if stmt_ok b then Ok (mkEmod E (em_assigns M) (em_clocked M) (em_initial M ++ [b]) (em_inputs M) (em_roots M), ps)
          else Err (Unsupported 5)
      | _ => Err (Unsupported 6)
      end in
  do r <- fold_left step (m_items m)
            (Ok (mkEmod (mkEnv (PM.empty vinfo) (PM.empty (option N * N))) [] [] [] [] [], PM.empty (option N * N)));
  Ok (fst r).

(* run for the given per-cycle input assignments, returning the state after every cycle *)
Fixpoint run (M : emod) (s : state) (inputs : list (list (ident * N))) : res (list state) :=
  match inputs with
  | [] => Ok []
  | ins :: rest => do s' <- cycle M ins s; do tl <- run M s' rest; Ok (s' :: tl)
  end.
