(* Vlog/Lint.v — structural checks of a set of Verilog modules (C18):
   undeclared identifiers, undefined modules, port-count / port-name mismatches, procedural
   assignment to a net, continuous assignment to a register, registers assigned from more than
   one always block.  Verilog-2001 rules: an undeclared simple identifier is legal (implicit net)
   only as a port connection or as the target of a continuous assignment.  Also: a name declared twice
   with a net/variable type (or twice as a port) in one module, and an implicit (hence one-bit) net
   connected to a port that the instantiated module declares as a vector. *)
From Coq Require Import List NArith PArith Bool.
From BM Require Import Vlog.Syntax.
Import ListNotations.

Inductive lint_error :=
| LUndeclared (m x : ident)
| LPortUndeclared (m x : ident)
| LUndefinedModule (m inst modname : ident)
| LPortCount (m inst : ident) (expected got : nat)
| LPortName (m inst p : ident)
| LProcAssignToNet (m x : ident)
| LContAssignToReg (m x : ident)
| LMultiDriver (m x : ident)
| LDuplicateDecl (m x : ident)
| LImplicitVector (m x : ident).

Definition mem (x : ident) (l : list ident) : bool := existsb (Pos.eqb x) l.

(* ---- identifiers read by an expression ---- *)
Fixpoint expr_ids (e : expr) : list ident :=
  match e with
  | ENum _ _ => []
  | EId x => [x]
  | EIndex x i => x :: expr_ids i
  | EPart x hi lo => x :: expr_ids hi ++ expr_ids lo
  | EUn _ a => expr_ids a
  | EBin _ a b => expr_ids a ++ expr_ids b
  | ECond c a b => expr_ids c ++ expr_ids a ++ expr_ids b
  | EConcat l => flat_map expr_ids l
  | ERepl n x => expr_ids n ++ expr_ids x
  | EOther subs => flat_map expr_ids subs
  end.

(* the variables an assignment target writes, and the identifiers it reads (indices) *)
Fixpoint lhs_roots (l : expr) : list ident :=
  match l with
  | EId x | EIndex x _ | EPart x _ _ => [x]
  | EConcat items => flat_map lhs_roots items
  | _ => []
  end.
Fixpoint lhs_reads (l : expr) : list ident :=
  match l with
  | EIndex _ i => expr_ids i
  | EPart _ hi lo => expr_ids hi ++ expr_ids lo
  | EConcat items => flat_map lhs_reads items
  | EOther subs => flat_map expr_ids subs
  | _ => []
  end.

Fixpoint stmt_reads (s : stmt) : list ident :=
  match s with
  | SBlock l => flat_map stmt_reads l
  | SNba l r | SBa l r => lhs_reads l ++ expr_ids r
  | SIf c t e => expr_ids c ++ stmt_reads t ++ match e with Some x => stmt_reads x | None => [] end
  | SCase sel arms d => expr_ids sel ++ flat_map (fun a => flat_map expr_ids (fst a) ++ stmt_reads (snd a)) arms ++
                        match d with Some x => stmt_reads x | None => [] end
  | SFor i c st b => stmt_reads i ++ expr_ids c ++ stmt_reads st ++ stmt_reads b
  | SNop => []
  | SOther subs es => flat_map stmt_reads subs ++ flat_map expr_ids es
  end.
Fixpoint stmt_writes (s : stmt) : list ident :=
  match s with
  | SBlock l => flat_map stmt_writes l
  | SNba l _ | SBa l _ => lhs_roots l
  | SIf _ t e => stmt_writes t ++ match e with Some x => stmt_writes x | None => [] end
  | SCase _ arms d => flat_map (fun a => stmt_writes (snd a)) arms ++ match d with Some x => stmt_writes x | None => [] end
  | SFor i _ st b => stmt_writes i ++ stmt_writes st ++ stmt_writes b
  | SNop => []
  | SOther subs _ => flat_map stmt_writes subs
  end.

(* ---- declarations of a module (generate regions included) ---- *)
Definition is_regk (ks : list dkind) : bool :=
  existsb (fun k => match k with DReg | DInteger | DGenvar | DReal => true | _ => false end) ks.
Definition is_portk (ks : list dkind) : bool :=
  existsb (fun k => match k with DInput | DOutput | DInout => true | _ => false end) ks.

Fixpoint items_decls (fuel : nat) (its : list item) : list (ident * list dkind) :=
  match fuel with
  | O => []
  | S f =>
      flat_map (fun it => match it with
                          | IDecl d => [(d_name d, d_kinds d)]
                          | IParam _ _ x _ => [(x, [DGenvar])]           (* constants: never assigned *)
                          | IGen its' => items_decls f its'
                          | IGenFor v _ its' => (v, [DGenvar]) :: items_decls f its'
                          | IFunc name _ _ => [(name, [DGenvar])]
                          | _ => [] end) its
  end.

Definition declared (ds : list (ident * list dkind)) (x : ident) : bool := existsb (fun d => Pos.eqb (fst d) x) ds.
(* a name is a variable (procedurally assignable) if some declaration of it says reg/integer *)
Definition is_var (ds : list (ident * list dkind)) (x : ident) : bool :=
  existsb (fun d => Pos.eqb (fst d) x && is_regk (snd d)) ds.

Definition conn_exprs (c : conns) : list expr :=
  match c with
  | CPos l => flat_map (fun o => match o with Some e => [e] | None => [] end) l
  | CNamed l => flat_map (fun p => match snd p with Some e => [e] | None => [] end) l
  end.

(* identifiers that may be implicit nets in this position: bare names only *)
Definition bare (e : expr) : list ident := match e with EId x => [x] | _ => [] end.

Section Module.
Variable D : design.
Variable external : list ident.          (* module names shipped as static IP *)
Variable m : module.

Let ds := items_decls 50 (m_items m).

Definition undeclared_in (ids : list ident) (allowed_implicit : list ident) : list lint_error :=
  flat_map (fun x => if declared ds x || mem x allowed_implicit then [] else [LUndeclared (m_name m) x]) ids.

Definition find_module (n : ident) : option module := find (fun md => Pos.eqb (m_name md) n) D.

(* the instantiated module declares this port with a range *)
Definition port_is_vector (md : module) (p : ident) : bool :=
  existsb (fun it => match it with
                     | IDecl d => Pos.eqb (d_name d) p && match d_range d with Some _ => true | None => false end
                     | _ => false end) (m_items md).
Definition implicit_vector (md : module) (c : conns) (locals : list ident) : list lint_error :=
  let check (p : ident) (e : expr) :=
    match e with
    | EId x => if negb (declared ds x) && negb (mem x locals) && port_is_vector md p then [LImplicitVector (m_name m) x] else []
    | _ => [] end in
  match c with
  | CPos l => flat_map (fun pe => match snd pe with Some e => check (fst pe) e | None => [] end) (combine (m_ports md) l)
  | CNamed l => flat_map (fun pe => match snd pe with Some e => check (fst pe) e | None => [] end) l
  end.

(* one item; [rec] lints the items nested in a generate block *)
Definition lint_item (rec : list ident -> list item -> list lint_error) (locals : list ident) (it : item) : list lint_error :=
        match it with
        | IDecl d =>
            undeclared_in (match d_range d with Some (a, b) => expr_ids a ++ expr_ids b | None => [] end ++
                           flat_map (fun p => expr_ids (fst p) ++ expr_ids (snd p)) (d_dims d) ++
                           match d_init d with Some e => expr_ids e | None => [] end) locals
        | IParam _ rng _ v =>
            undeclared_in (match rng with Some (a, b) => expr_ids a ++ expr_ids b | None => [] end ++ expr_ids v) locals
        | IAssign l r =>
            undeclared_in (lhs_reads l ++ expr_ids r) locals ++
            undeclared_in (lhs_roots l) (locals ++ bare l) ++
            flat_map (fun x => if is_var ds x then [LContAssignToReg (m_name m) x] else []) (lhs_roots l)
        | IAlways sn body =>
            undeclared_in (match sn with SEdges l => flat_map (fun p => expr_ids (snd p)) l | _ => [] end ++
                           stmt_reads body ++ stmt_writes body) locals ++
            flat_map (fun x => if declared ds x && negb (is_var ds x) && negb (mem x locals)
                               then [LProcAssignToNet (m_name m) x] else []) (nodup Pos.eq_dec (stmt_writes body))
        | IInitial body =>
            undeclared_in (stmt_reads body ++ stmt_writes body) locals ++
            flat_map (fun x => if declared ds x && negb (is_var ds x) && negb (mem x locals)
                               then [LProcAssignToNet (m_name m) x] else []) (nodup Pos.eq_dec (stmt_writes body))
        | IInst mn inst c _ =>
            let es := conn_exprs c in
            undeclared_in (flat_map expr_ids es) (locals ++ flat_map bare es) ++
            match find_module mn with
            | Some md =>
                implicit_vector md c locals ++
                match c with
                | CPos l => if Nat.eqb (length l) (length (m_ports md)) then []
                            else [LPortCount (m_name m) inst (length (m_ports md)) (length l)]
                | CNamed l => flat_map (fun p => if mem (fst p) (m_ports md) then [] else [LPortName (m_name m) inst (fst p)]) l
                end
            | None => if mem mn external then [] else [LUndefinedModule (m_name m) inst mn]
            end
        | IGen its' => rec locals its'
        | IGenFor v es its' => undeclared_in (flat_map expr_ids es) (v :: locals) ++ rec (v :: locals) its'
        | IFunc name decls body =>
            let loc := name :: map d_name decls ++ locals in
            undeclared_in (flat_map stmt_reads body ++ flat_map stmt_writes body) loc
        | IOther => []
        end.

Fixpoint lint_items (fuel : nat) (locals : list ident) (its : list item) : list lint_error :=
  match fuel with
  | O => []
  | S f => flat_map (lint_item (lint_items f) locals) its
  end.

(* every always block's written variables; a variable written by two blocks has two drivers *)
Fixpoint always_writes (fuel : nat) (its : list item) : list (list ident) :=
  match fuel with
  | O => []
  | S f => flat_map (fun it => match it with
                               | IAlways _ body => [nodup Pos.eq_dec (stmt_writes body)]
                               | IGen its' => always_writes f its'
                               | _ => [] end) its       (* blocks replicated by a generate-for drive distinct elements *)
  end.

Fixpoint multi (seen : list ident) (blocks : list (list ident)) : list ident :=
  match blocks with
  | [] => []
  | b :: rest => filter (fun x => mem x seen) b ++ multi (b ++ seen) rest
  end.

(* a name with two typed declarations (wire/reg/integer/real) or two port declarations *)
Definition is_typek (ks : list dkind) : bool :=
  existsb (fun k => match k with DWire | DReg | DInteger | DReal => true | _ => false end) ks.
Fixpoint top_decls (its : list item) : list (ident * list dkind) :=
  match its with
  | [] => []
  | IDecl d :: r => (d_name d, d_kinds d) :: top_decls r
  | _ :: r => top_decls r
  end.
Definition duplicate_decls : list ident :=
  let tds := top_decls (m_items m) in
  nodup Pos.eq_dec
    (filter (fun x => Nat.ltb 1 (length (filter (fun d => Pos.eqb (fst d) x && is_typek (snd d)) tds)) ||
                      Nat.ltb 1 (length (filter (fun d => Pos.eqb (fst d) x && is_portk (snd d)) tds)))
            (map fst tds)).

Definition lint_module : list lint_error :=
  flat_map (fun p => if existsb (fun d => Pos.eqb (fst d) p && is_portk (snd d)) ds then [] else [LPortUndeclared (m_name m) p])
           (m_ports m) ++
  lint_items 50 [] (m_items m) ++
  map (LMultiDriver (m_name m)) (nodup Pos.eq_dec (multi [] (always_writes 50 (m_items m)))) ++
  map (LDuplicateDecl (m_name m)) duplicate_decls.

End Module.

Definition lint (D : design) (external : list ident) : list lint_error :=
  flat_map (lint_module D external) D.

(* numeric rendering for the driver: (class, module, ident/instance, a, b) *)
Definition code (e : lint_error) : N * positive * positive * N * N :=
  match e with
  | LUndeclared m x => (1, m, x, 0, 0)
  | LPortUndeclared m x => (2, m, x, 0, 0)
  | LUndefinedModule m i n => (3, m, i, Npos n, 0)
  | LPortCount m i a b => (4, m, i, N.of_nat a, N.of_nat b)
  | LPortName m i p => (5, m, i, Npos p, 0)
  | LProcAssignToNet m x => (6, m, x, 0, 0)
  | LContAssignToReg m x => (7, m, x, 0, 0)
  | LMultiDriver m x => (8, m, x, 0, 0)
  | LDuplicateDecl m x => (9, m, x, 0, 0)
  | LImplicitVector m x => (10, m, x, 0, 0)
  end%N.
