(* Vlog/Syntax.v — abstract syntax of the Verilog-2001 subset the BondMachine generators emit.
   Identifiers are interned to [positive] by the front-end (lib/vparse.py, lib/vcoq.py). *)
From Coq Require Import List NArith PArith.
Import ListNotations.

Definition ident := positive.

Inductive unop := UNot | UBNot | UNeg | UPlus | URAnd | UROr | URXor | URNand | URNor | URXnor.
Inductive binop :=
| BAdd | BSub | BMul | BDiv | BMod | BPow
| BEq | BNe | BLt | BLe | BGt | BGe
| BLAnd | BLOr | BAnd | BOr | BXor | BXnor | BShl | BShr.

Inductive expr : Type :=
| ENum (w : option N) (v : N)            (* sized / unsized literal (x and z digits read as 0) *)
| EId (x : ident)
| EIndex (x : ident) (i : expr)          (* bit select of a vector or word select of a memory *)
| EPart (x : ident) (hi lo : expr)       (* constant part select *)
| EUn (o : unop) (a : expr)
| EBin (o : binop) (a b : expr)
| ECond (c a b : expr)
| EConcat (l : list expr)
| ERepl (n : expr) (e : expr)
| EOther (subs : list expr).             (* function / system call, string, indexed part select,
                                            hierarchical name: scoped by lint, not interpreted *)

Inductive stmt : Type :=
| SBlock (l : list stmt)
| SNba (l r : expr)                      (* l <= r *)
| SBa (l r : expr)                       (* l = r *)
| SIf (c : expr) (t : stmt) (e : option stmt)
| SCase (sel : expr) (arms : list (list expr * stmt)) (dflt : option stmt)
| SFor (init : stmt) (cond : expr) (step : stmt) (body : stmt)
| SNop                                   (* $display, delays, empty statement *)
| SOther (subs : list stmt) (es : list expr).   (* while/forever/task call/casez...: lint only *)

Inductive dkind := DInput | DOutput | DInout | DWire | DReg | DInteger | DGenvar | DSigned | DReal.

Record decl : Type := mkDecl {
  d_kinds : list dkind;
  d_range : option (expr * expr);
  d_name : ident;
  d_dims : list (expr * expr);
  d_init : option expr
}.

Inductive edge := Posedge | Negedge | Level.
Inductive sens := SStar | SEdges (l : list (edge * expr)) | SDelay.
Inductive conns := CPos (l : list (option expr)) | CNamed (l : list (ident * option expr)).

Inductive item : Type :=
| IDecl (d : decl)
| IParam (local : bool) (rng : option (expr * expr)) (x : ident) (v : expr)
| IAssign (l r : expr)
| IAlways (s : sens) (body : stmt)
| IInitial (body : stmt)
| IInst (m : ident) (name : ident) (c : conns) (params : option conns)
| IGen (items : list item)                      (* generate region / block / all branches of a generate-if *)
| IGenFor (var : ident) (es : list expr) (items : list item)
| IFunc (name : ident) (decls : list decl) (body : list stmt)
| IOther.

Record module : Type := mkModule { m_name : ident; m_ports : list ident; m_items : list item }.
Definition design := list module.
