(* Vlog/Closed.v — running an elaborated design against a reactive, protocol-abiding environment:
   every external input offers the values of a stream one at a time (data with valid, wait for
   received, drop valid, wait for received to fall), every external output is acknowledged by
   echoing its valid line; the values delivered on each output are recorded at the rising edge of
   valid.  This is the environment the Go harness applies to bondmachine.VM (harness/sim.go). *)
From Coq Require Import List NArith Bool PArith.
From BM Require Import Vlog.Syntax Vlog.Sem.
Import ListNotations.
Local Open Scope N_scope.

Record inport := mkIn { i_data : ident; i_valid : ident; i_recv : ident }.
Record outport := mkOut { o_data : ident; o_valid : ident; o_recv : ident }.

(* input side: remaining stream and whether we are waiting for received to fall *)
Record instate := mkIS { is_stream : list N; is_wait : bool }.
Record outstate := mkOS { os_seen : list N; os_prev : bool }.

Definition in_step (s : state) (p : inport) (st : instate) : instate * list (ident * N) :=
  let recv := negb (get s (i_recv p) =? 0) in
  if is_wait st then
    if recv then (st, [(i_valid p, 0)])
    else match is_stream st with
         | v :: _ => (mkIS (is_stream st) false, [(i_data p, v); (i_valid p, 1)])
         | [] => (st, [(i_valid p, 0)])
         end
  else
    match is_stream st with
    | v :: rest => if recv then (mkIS rest true, [(i_valid p, 0)])
                   else (st, [(i_data p, v); (i_valid p, 1)])
    | [] => (st, [(i_valid p, 0)])
    end.

Definition out_step (s : state) (p : outport) (st : outstate) : outstate * list (ident * N) :=
  let valid := negb (get s (o_valid p) =? 0) in
  (mkOS (if valid && negb (os_prev st) then os_seen st ++ [get s (o_data p)] else os_seen st) valid,
   [(o_recv p, if valid then 1 else 0)]).

Fixpoint zipstep {P S} (f : P -> S -> S * list (ident * N)) (ps : list P) (ss : list S) : list S * list (ident * N) :=
  match ps, ss with
  | p :: ps', s :: ss' => let '(s1, d) := f p s in let '(r, ds) := zipstep f ps' ss' in (s1 :: r, d ++ ds)
  | _, _ => ([], [])
  end.

Fixpoint run_closed (M : emod) (clk : list (ident * N)) (ins : list inport) (outs : list outport)
                    (n : nat) (s : state) (ist : list instate) (ost : list outstate) : res (list outstate) :=
  match n with
  | O => Ok ost
  | S n' =>
      let '(ist1, di) := zipstep (in_step s) ins ist in
      let '(ost1, do_) := zipstep (out_step s) outs ost in
      match cycle M (clk ++ di ++ do_) s with
      | Ok s' => run_closed M clk ins outs n' s' ist1 ost1
      | Err e => Err e
      end
  end.
