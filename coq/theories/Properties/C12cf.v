(* C12, control flow — the source-level meaning of the control-flow subset (Front/BondgoCF.v: loops with init and
   post statements, if/else on a constant, break, continue, ++/--, user functions) is the reference the
   compiled programs are compared with: the writes the simulated machine performs must be a prefix of the
   program's writes, or the other way round.  That comparison is meaningful because the fuelled semantics is
   monotone: more fuel only extends the sequence of writes, and a run that ends by itself is final. *)
From Coq Require Import List NArith Bool Arith.
From BM Require Import Front.BondgoCF Proofs.BondgoCFProofs.
Import ListNotations.

Theorem more_fuel_only_extends_the_write_sequence : forall M funs max_writes f f' nvars ss, f <= f' ->
  exists more, program_writes M funs max_writes f' nvars ss = program_writes M funs max_writes f nvars ss ++ more.
Proof. exact more_fuel_only_extends_the_writes. Qed.
Print Assumptions more_fuel_only_extends_the_write_sequence.

Theorem a_run_that_ends_by_itself_is_final : forall M funs max_writes f f' ss st, f <= f' ->
  snd (run M funs max_writes f ss st) <> OutOfFuel -> run M funs max_writes f' ss st = run M funs max_writes f ss st.
Proof. exact a_run_that_ends_is_final. Qed.
Print Assumptions a_run_that_ends_by_itself_is_final.

(* a loop with a post statement, continue and break, a nested loop and a function call *)
Example a_program_and_its_writes :
  let funs := [FIf false (FAddC 0 1) (FMulC 0 2) (Some 0)] in
  let prog := [SFor (Some (0, 3%N)) (Some (0, false))
                 [SWrite 0 (EVar 0);
                  SIf true [SCall 1 0 [EVar 0]; SContinue] [SWrite 1 (EConst 9)];
                  SWrite 1 (EConst 7)];
               SWrite 1 (EVar 1)] in
  firstn 5 (program_writes 256 funs 60 200 2 prog) = [(0%nat, 3%N); (0%nat, 2%N); (0%nat, 1%N); (0%nat, 0%N); (0%nat, 255%N)] /\
  program_writes 256 [] 60 50 1 [SFor None None [SInc 0; SIf true [SBreak] []]; SWrite 0 (EVar 0)] = [(0%nat, 1%N)].
Proof. vm_compute. auto. Qed.
