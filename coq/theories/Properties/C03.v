(* C03 — instruction encoding is a lossless, fixed-width, range-checked code.
   Statements only (proofs: Proofs/EncodeProofs.v).  [tbl] is the table of per-opcode field
   layouts; the table extracted from /repo's current source is checked against the side
   condition [forallb layout_rt_ok tbl = true] in generated/C03_obligations.v on every run. *)
From Coq Require Import List String NArith.
From BM Require Import Base.Bits Base.Dec Isa.Encode Front.NumLit Proofs.EncodeProofs.
Import ListNotations.

(* an accepted line is exactly one ROM word wide *)
Theorem asm_fixed_width : forall tbl a ws w,
  asm tbl a ws = Some w -> List.length w = max_word tbl a.
Proof. exact asm_fixed_width_pn. Qed.
Print Assumptions asm_fixed_width.

(* the disassembly of an accepted line is the same instruction with the same operands
   (numeric literals normalised to decimal), and assembling that disassembly gives the
   word back — hence asm (disasm w) = w for every w in the image of asm *)
Theorem disasm_asm : forall tbl,
  forallb layout_rt_ok tbl = true ->
  forall a name args w,
    asm tbl a (name :: args) = Some w ->
    (forall l, find_layout tbl name = Some l -> small_fields a (afields l) (dfields l)) ->
    exists l, find_layout tbl name = Some l /\
              disasm_word tbl a w = Some (name :: normalise process_number a (afields l) args) /\
              asm tbl a (name :: normalise process_number a (afields l) args) = Some w.
Proof. exact disasm_asm_pn. Qed.
Print Assumptions disasm_asm.

(* an operand that does not fit its field is rejected: whenever a line is accepted, every
   operand parsed and its binary digits are no longer than the field *)
Theorem asm_rejects_unfit : forall tbl,
  forallb layout_rt_ok tbl = true ->
  forall a name args w,
    asm tbl a (name :: args) = Some w ->
    exists l, find_layout tbl name = Some l /\ operands_fit process_number a (afields l) args.
Proof. exact asm_rejects_unfit_pn. Qed.
Print Assumptions asm_rejects_unfit.

(* the symbolic side condition is sound: equal linear forms are equal in every architecture *)
Theorem width_check_sound : forall x y, wexpr_eqb x y = true -> forall a, weval a x = weval a y.
Proof. exact wexpr_eqb_sound. Qed.
Print Assumptions width_check_sound.

(* non-vacuity: a two-opcode table in the generated format, an architecture, accepted and
   rejected lines *)
Local Open Scope string_scope.
Definition ex_tbl : list layout := [
  mkLayout "j" (Some 1) [mkAF KNum WLoc] (Some (WPlus (WA AOp) WLoc)) (WPlus (WA AOp) WLoc) [mkDF (WC 0) WLoc PNum];
  mkLayout "rset" (Some 2) [mkAF KReg (WA AR); mkAF KNum (WA ARsize)]
           (Some (WPlus (WPlus (WA AOp) (WA AR)) (WA ARsize))) (WPlus (WPlus (WA AOp) (WA AR)) (WA ARsize))
           [mkDF (WC 0) (WA AR) PReg; mkDF (WA AR) (WPlus (WA AR) (WA ARsize)) PNumU]].
Definition ex_arch := mkArch 8 2 1 1 0 4 ["j"; "rset"] 0 Ha [].
Example ex_accepts_and_rejects :
  forallb layout_rt_ok ex_tbl = true /\
  asm ex_tbl ex_arch ["rset"; "r3"; "0x1f"] = Some [true; true;true; false;false;false;true;true;true;true;true] /\
  disasm_word ex_tbl ex_arch [true; true;true; false;false;false;true;true;true;true;true] = Some ["rset"; "r3"; "31"] /\
  asm ex_tbl ex_arch ["rset"; "r0"; "256"] = None /\
  asm ex_tbl ex_arch ["j"; "16"] = None /\
  asm ex_tbl ex_arch ["j"; "15"] = Some [false; true;true;true;true; false;false;false;false;false;false].
Proof. vm_compute. repeat split; reflexivity. Qed.

(* 64-bit immediates survive the round trip since the rset disassembler prints them unsigned
   (fix: rset disassembler ...); a field printed through strconv.Itoa is limited to 63 bits *)
Definition ex_arch64 := mkArch 64 2 1 1 0 4 ["j"; "rset"] 0 Ha [].
Definition w64 : bstr :=
  Eval vm_compute in match asm ex_tbl ex_arch64 ["rset"; "r0"; "0xffffffffffffffff"] with Some w => w | None => [] end.
Example ex_64bit_immediate :
  asm ex_tbl ex_arch64 ["rset"; "r0"; "0xffffffffffffffff"] = Some w64 /\
  disasm_word ex_tbl ex_arch64 w64 = Some ["rset"; "r0"; "18446744073709551615"] /\
  asm ex_tbl ex_arch64 ["rset"; "r0"; "18446744073709551615"] = Some w64.
Proof. vm_compute. repeat split; reflexivity. Qed.
