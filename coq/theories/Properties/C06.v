(* C06 — mapping a fragment graph onto more or fewer processors keeps its result.
   The model of fragmentComposer (Front/Frag.v) is compared with the assembler instruction by
   instruction for every processor of every partition, and the graph's direct evaluation with the
   settled outputs of the simulated machines.  Proved: for any graph whose sources name earlier
   instances, any collapse list that keeps producers before consumers, any fragments with
   register-only bodies that read only what they received or wrote, any register size and any initial
   register contents, one pass of the section fragmentComposer generates leaves, at every processor
   output, the value the direct evaluation of the graph gives to the port numbered there, provided
   the processor inputs carry the values of their sources (graph inputs or the outputs of instances
   on other processors), and more generally for every instance whose own inputs are right.  On top of
   that: in the machine of Front/FragNet.v, where the processors of a partition take whole passes in
   any order, reading the links as they are and publishing their outputs, any schedule that can be
   cut into as many stretches as the graph has instances, each giving every processor a turn, ends
   with the direct evaluation on the external outputs, from any initial links and registers; the
   round-robin schedule is one.  The running machine interleaves at instruction granularity; that it
   settles on the same values is what the simulation part of the check observes.  Also proved: the register discipline that makes
   collapsing harmless (temporaries are fresh and distinct, NextResource returns the lowest free
   register) and the shape of the evaluation. *)
From Coq Require Import List NArith Bool Arith.
From BM Require Import Isa.Sim Front.Frag Front.FragWf Front.FragNet Proofs.FragProofs Proofs.FragPass Proofs.FragSchedule.
Import ListNotations.

Theorem temporaries_never_collide_with_fragment_registers : forall k used,
  NoDup (alloc_tmps k used) /\ forall t, In t (alloc_tmps k used) -> ~ In t used.
Proof. exact temporaries_are_fresh. Qed.
Print Assumptions temporaries_never_collide_with_fragment_registers.

Theorem next_resource_is_the_lowest_free_register : forall used,
  ~ In (lowest_free (S (length used)) 0 used) used /\
  forall k, k < lowest_free (S (length used)) 0 used -> In k used.
Proof. intros used. split; [apply lowest_free_fresh|apply lowest_free_lowest]. Qed.
Print Assumptions next_resource_is_the_lowest_free_register.

Theorem evaluation_records_one_result_per_instance : forall rsize nregs xs g vals,
  length (eval_insts rsize nregs xs g vals) = length vals + length g.
Proof. exact eval_records_every_instance. Qed.
Print Assumptions evaluation_records_one_result_per_instance.

(* the decidable conditions (Front/FragWf.v) are evaluated on every generated graph by the
   correspondence check (FragCheck code 3) *)
Theorem one_pass_of_the_composed_section_leaves_the_graph_values_at_the_outputs :
  forall rs nregs nouts g cl xs r body,
  graph_ok g = true -> pass_ok g cl nregs nouts = true -> length r = nregs ->
  compose g cl = body ++ [IJ 0] ->
  forall p q k, In p cl -> index_of2 (p, q) (out_ports g cl) = Some k ->
  nthN (snd (run_pass rs body (pass_inputs rs nregs g cl xs) nouts r)) k =
  nthN (nth p (eval_insts rs nregs xs (insts g) []) []) q.
Proof. exact compose_pass_correct. Qed.
Print Assumptions one_pass_of_the_composed_section_leaves_the_graph_values_at_the_outputs.

Theorem external_outputs_carry_the_direct_evaluation :
  forall rs nregs nouts g cl xs r body,
  graph_ok g = true -> pass_ok g cl nregs nouts = true -> length r = nregs ->
  compose g cl = body ++ [IJ 0] ->
  forall p q, In (p, q) (ext_out g) -> In p cl -> q < length (resout (ifrag (inst_at g p))) ->
  exists k, index_of2 (p, q) (out_ports g cl) = Some k /\
    nthN (snd (run_pass rs body (pass_inputs rs nregs g cl xs) nouts r)) k =
    nthN (nth p (eval_insts rs nregs xs (insts g) []) []) q.
Proof. exact compose_pass_external. Qed.
Print Assumptions external_outputs_carry_the_direct_evaluation.

(* non-vacuity: a graph with fan-out across a processor boundary and two fragments that use the same
   register names; both collapse lists of the partition {0,2} {1} meet the conditions, a temporary is
   allocated, and the pass gives the evaluation's value whatever the registers held before *)
Definition ex_f1 := mkFrag [0] [1] [ICpy 1 0; IInc 1].
Definition ex_f2 := mkFrag [0; 1] [0] [IAdd 0 1].
Definition ex_g := mkGraph [mkInst ex_f1 [SExt 0]; mkInst ex_f1 [SOut 0 0]; mkInst ex_f2 [SOut 0 0; SOut 1 0]] [(2, 0)].
Example the_conditions_are_met :
  graph_ok ex_g = true /\ pass_ok ex_g [0; 2] 8 2 = true /\ pass_ok ex_g [1] 8 1 = true /\
  tmp_ports ex_g [0; 2] = [(0, 0)] /\ index_of2 (2, 0) (out_ports ex_g [0; 2]) = Some 1 /\
  eval 8 8 ex_g [5%N] = [13%N] /\
  snd (run_pass 8 (removelast (compose ex_g [0; 2])) (pass_inputs 8 8 ex_g [0; 2] [5%N]) 2 [9; 9; 9; 9; 9; 9; 9; 9]%N) = [6; 13]%N.
Proof. vm_compute. repeat split; reflexivity. Qed.

(* the machine of a partition, pass by pass *)
Theorem any_fair_schedule_of_passes_ends_with_the_direct_evaluation :
  forall rs nregs g parts xs, graph_ok g = true -> partition_ok g parts nregs = true -> ext_ok g = true ->
  forall s m, covers parts s (length (insts g)) -> Forall (fun c => c < length parts) s ->
  Forall (fun r => length r = nregs) (mregs m) ->
  outputs_of g (mw (fold_left (step_cp rs nregs g parts (map (compose g) parts) xs) s m)) = eval rs nregs g xs.
Proof. exact schedule_reaches_the_evaluation. Qed.
Print Assumptions any_fair_schedule_of_passes_ends_with_the_direct_evaluation.

Theorem every_partition_run_round_robin_gives_the_same_result :
  forall rs nregs g parts xs m, graph_ok g = true -> partition_ok g parts nregs = true -> ext_ok g = true ->
  Forall (fun r => length r = nregs) (mregs m) ->
  outputs_of g (mw (run_sched rs nregs g parts (map (compose g) parts) xs (rounds (length parts) (length (insts g))) m)) = eval rs nregs g xs.
Proof. intros. apply round_robin_reaches_the_evaluation; assumption. Qed.
Print Assumptions every_partition_run_round_robin_gives_the_same_result.

(* non-vacuity: three partitions of the example graph meet the conditions, among them one whose
   processors depend on each other in both directions ({0,2} needs 1, {1} needs 0) *)
Example three_partitions_of_one_graph :
  ext_ok ex_g = true /\ partition_ok ex_g [[0; 1; 2]] 8 = true /\ partition_ok ex_g [[0]; [1]; [2]] 8 = true /\
  partition_ok ex_g [[0; 2]; [1]] 8 = true /\
  outputs_of ex_g (mw (run_sched 8 8 ex_g [[0; 2]; [1]] (map (compose ex_g) [[0; 2]; [1]]) [5%N] (rounds 2 3)
                                 (mkM (wires0 ex_g) [[1; 2; 3; 4; 5; 6; 7; 8]; [8; 7; 6; 5; 4; 3; 2; 1]]%N))) = [13%N].
Proof. vm_compute. repeat split; reflexivity. Qed.
