(* C06 — mapping a fragment graph onto more or fewer processors keeps its result.
   The model of fragmentComposer (Front/Frag.v) is compared with the assembler instruction by
   instruction for every processor of every partition, and the graph's direct evaluation with the
   settled outputs of the simulated machines.  Proved so far: the register discipline that makes
   collapsing harmless (temporaries are fresh and distinct, NextResource returns the lowest free
   register) and the shape of the evaluation; the full statement "one pass of the composed section
   computes the graph's values at its outputs" is stated in DESIGN.md and not yet proved (partial). *)
From Coq Require Import List NArith Bool Arith.
From BM Require Import Isa.Sim Front.Frag Proofs.FragProofs.
Import ListNotations.

Theorem temporaries_never_collide_with_fragment_registers : forall k used,
  NoDup (alloc_tmps k used) /\ forall t, In t (alloc_tmps k used) -> ~ In t used.
Proof. exact temporaries_are_fresh. Qed.
Print Assumptions temporaries_never_collide_with_fragment_registers.

Theorem next_resource_is_the_lowest_free_register : forall used,
  ~ In (lowest_free (S (length used)) 0 used) used /\
  forall k, k < lowest_free (S (length used)) 0 used -> In k used.
Proof. intros used. split; [apply lowest_free_fresh|apply lowest_free_lowest]. Qed.
Print Assumptions next_resource_is_the_lowest_free_register.

Theorem evaluation_records_one_result_per_instance : forall rsize nregs xs g vals,
  length (eval_insts rsize nregs xs g vals) = length vals + length g.
Proof. exact eval_records_every_instance. Qed.
Print Assumptions evaluation_records_one_result_per_instance.
