(* C06 — mapping a fragment graph onto more or fewer processors keeps its result (statements follow) *)
From Coq Require Import List.
Import ListNotations.
Fact c06_placeholder : forall (A : Type) (l : list A), l ++ [] = l.
Proof. intros. apply app_nil_r. Qed.
Print Assumptions c06_placeholder.
