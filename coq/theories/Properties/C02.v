(* C02 — a whole BondMachine behaves the same in generated HDL as in simulation.
   What is proved here concerns the simulator side of the statement about received lines (the value
   the tick model gives an output's received flag is the conjunction over the inputs bonded to it)
   and the environment used for the stream comparison; the stream comparison itself runs the real
   generated Verilog under Vlog.Sem against bondmachine.VM. *)
From Coq Require Import List NArith Bool Arith.
From BM Require Import Net.Topo Isa.Sim Net.Tick.
Import ListNotations.

(* an output's received flag in the simulator model is true exactly when it has at least one
   consumer and every input linked to it has raised received *)
Theorem received_is_the_conjunction_of_the_consumers : forall links recvs j,
  recv_and links recvs j = true <->
  (exists i, nth_error links i = Some (Some j)) /\
  (forall i, nth_error links i = Some (Some j) -> nthB recvs i = true).
Proof.
  intros links recvs j. unfold recv_and.
  set (cons := filter (fun p : nat * option nat => match snd p with Some k => Nat.eqb k j | None => false end) (idx links)).
  assert (Hgen : forall (l : list (option nat)) s i x,
            In (i, x) (combine (seq s (length l)) l) <-> s <= i /\ nth_error l (i - s) = Some x).
  { induction l as [|y l IH]; intros s i x; simpl.
    - split; [contradiction|]. intros [_ H]. destruct (i - s); discriminate.
    - rewrite IH. split.
      + intros [H|[H1 H2]].
        * inversion H; subst. split; [apply Nat.le_refl|]. rewrite Nat.sub_diag. reflexivity.
        * split; [apply Nat.le_trans with (S s); auto|]. replace (i - s) with (S (i - S s)) by (apply Nat.le_succ_l in H1; rewrite <- Nat.sub_succ_l by exact H1; reflexivity). exact H2.
      + intros [H1 H2]. destruct (Nat.eq_dec i s) as [->|Hne].
        * left. rewrite Nat.sub_diag in H2. simpl in H2. inversion H2. reflexivity.
        * right. assert (Hlt : S s <= i) by (apply Nat.le_succ_l; apply Nat.le_neq; split; auto).
          split; [exact Hlt|]. replace (i - s) with (S (i - S s)) in H2 by (rewrite <- Nat.sub_succ_l by exact Hlt; reflexivity). exact H2. }
  assert (Hin : forall i, In (i, Some j) (idx links) <-> nth_error links i = Some (Some j)).
  { intros i. unfold idx. rewrite Hgen. rewrite Nat.sub_0_r. split; [tauto|]. intros H. split; [apply Nat.le_0_l|exact H]. }
  assert (Hc : forall p, In p cons <-> exists i, p = (i, Some j) /\ nth_error links i = Some (Some j)).
  { intros [i l]. unfold cons. rewrite filter_In. simpl. split.
    - intros [H1 H2]. destruct l as [k|]; [|discriminate]. apply Nat.eqb_eq in H2. subst k. exists i. split; auto. apply Hin. exact H1.
    - intros [i' [E H]]. inversion E; subst. split; [apply Hin; exact H|]. apply Nat.eqb_refl. }
  destruct cons as [|c0 cs] eqn:Ec.
  - split; [discriminate|]. intros [[i Hi] _]. assert (In (i, Some j) []) by (apply Hc; eauto). contradiction.
  - rewrite forallb_forall. split.
    + intros H. split.
      * destruct (proj1 (Hc c0) (or_introl eq_refl)) as [i [_ Hi]]. eauto.
      * intros i Hi. apply (H (i, Some j)). apply Hc. eauto.
    + intros [_ H] p Hp. apply Hc in Hp. destruct Hp as [i [-> Hi]]. simpl. apply H. exact Hi.
Qed.
Print Assumptions received_is_the_conjunction_of_the_consumers.
