(* C15 — simulation rules are applied exactly as written.  Part 1: rule text and rule list.
   (Part 2, the effect of rules during simulation, is stated over Net.Tick in C15dyn.) *)
From Coq Require Import String NArith ZArith List Bool.
From BM Require Import Front.Simbox Proofs.SimboxProofs.
Import ListNotations.

(* every rule the parser can produce prints to a string that parses back to the same rule *)
Theorem parse_print : forall r, wf_rule r = true -> parse_rule (print_rule r) = Some r.
Proof. exact parse_print_all. Qed.
Print Assumptions parse_print.

(* wf_rule is exactly the image of the parser (so the hypothesis above is not a restriction) *)
Theorem parse_image : forall s r, parse_rule s = Some r -> wf_rule r = true.
Proof. exact parse_image_wf. Qed.
Print Assumptions parse_image.

Theorem print_parse : forall s r, parse_rule s = Some r -> parse_rule (print_rule r) = Some r.
Proof. exact print_parse_stable. Qed.
Print Assumptions print_parse.

(* as far as the active rules go, suspending a rule is the same as deleting it *)
Theorem suspended_is_absent : forall rs i,
  active (fst (sb_apply rs (SbSuspend i))) = active (fst (sb_apply rs (SbDel i))).
Proof. exact suspend_is_delete_for_active. Qed.
Print Assumptions suspended_is_absent.

Theorem reactivate_restores : forall rs i,
  fst (sb_apply (fst (sb_apply rs (SbSuspend i))) (SbReactivate i)) = fst (sb_apply rs (SbReactivate i)).
Proof. exact reactivate_undoes_suspend. Qed.
Print Assumptions reactivate_restores.

Local Open Scope string_scope.
Example ex_rules :
  parse_rule "absolute:-5:set:i0:0x1f" = Some (mkRule TAbs 18446744073709551611 ASet "i0" "0x1f" false) /\
  print_rule (mkRule TAbs 18446744073709551611 ASet "i0" "0x1f" false) = "absolute:-5:set:i0:0x1f" /\
  parse_rule "relative:+7:get:p0r1" = Some (mkRule TRel 7 AGet "p0r1" "unsigned" false) /\
  parse_rule "onexit:show:o0" = Some (mkRule TOnExit 0 AShow "o0" "unsigned" false) /\
  parse_rule "config:show_pc" = Some (mkRule TNone 0 AConfig "show_pc" "" false) /\
  parse_rule "absolute:9223372036854775808:set:i0:1" = None /\
  wf_rule (mkRule TRel 7 AGet "p0r1" "unsigned" false) = true.
Proof. vm_compute. repeat split; reflexivity. Qed.
