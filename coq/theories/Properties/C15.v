(* C15 — simulation rules are applied exactly as written.  Part 1: rule text and rule list.
   Part 2 (below): the effect of rules during a run, over Front/SimRun.v — the simulation loop with the
   machine as a parameter; its firing functions are the oracle of the correspondence check, which runs
   cmd/bondmachine -sim on generated machines and rule files. *)
From Coq Require Import String NArith ZArith List Bool.
From BM Require Import Front.Simbox Proofs.SimboxProofs Front.SimRun Proofs.SimRunProofs.
Import ListNotations.

(* every rule the parser can produce prints to a string that parses back to the same rule *)
Theorem parse_print : forall r, wf_rule r = true -> parse_rule (print_rule r) = Some r.
Proof. exact parse_print_all. Qed.
Print Assumptions parse_print.

(* wf_rule is exactly the image of the parser (so the hypothesis above is not a restriction) *)
Theorem parse_image : forall s r, parse_rule s = Some r -> wf_rule r = true.
Proof. exact parse_image_wf. Qed.
Print Assumptions parse_image.

Theorem print_parse : forall s r, parse_rule s = Some r -> parse_rule (print_rule r) = Some r.
Proof. exact print_parse_stable. Qed.
Print Assumptions print_parse.

(* as far as the active rules go, suspending a rule is the same as deleting it *)
Theorem suspended_is_absent : forall rs i,
  active (fst (sb_apply rs (SbSuspend i))) = active (fst (sb_apply rs (SbDel i))).
Proof. exact suspend_is_delete_for_active. Qed.
Print Assumptions suspended_is_absent.

Theorem reactivate_restores : forall rs i,
  fst (sb_apply (fst (sb_apply rs (SbSuspend i))) (SbReactivate i)) = fst (sb_apply rs (SbReactivate i)).
Proof. exact reactivate_undoes_suspend. Qed.
Print Assumptions reactivate_restores.

Local Open Scope string_scope.
Example ex_rules :
  parse_rule "absolute:-5:set:i0:0x1f" = Some (mkRule TAbs 18446744073709551611 ASet "i0" "0x1f" false) /\
  print_rule (mkRule TAbs 18446744073709551611 ASet "i0" "0x1f" false) = "absolute:-5:set:i0:0x1f" /\
  parse_rule "relative:+7:get:p0r1" = Some (mkRule TRel 7 AGet "p0r1" "unsigned" false) /\
  parse_rule "onexit:show:o0" = Some (mkRule TOnExit 0 AShow "o0" "unsigned" false) /\
  parse_rule "config:show_pc" = Some (mkRule TNone 0 AConfig "show_pc" "" false) /\
  parse_rule "absolute:9223372036854775808:set:i0:1" = None /\
  wf_rule (mkRule TRel 7 AGet "p0r1" "unsigned" false) = true.
Proof. vm_compute. repeat split; reflexivity. Qed.

(* ---------- part 2: the rules during a run (Front/SimRun.v: the simulation loop with the machine as a parameter) ---------- *)

(* a set rule acts at exactly its tick, a periodic one on exactly the multiples of its period, never when suspended *)
Theorem a_set_rule_acts_at_exactly_the_stated_ticks : forall t r, due_set t r = true <->
  r_suspended r = false /\ r_action r = ASet /\
  ((r_timec r = TAbs /\ r_tick r = t) \/ (r_timec r = TRel /\ r_tick r <> 0%N /\ (t mod r_tick r = 0)%N)).
Proof. exact due_set_spec. Qed.
Print Assumptions a_set_rule_acts_at_exactly_the_stated_ticks.

(* for any machine whose named objects can be written independently: the sets of a tick change exactly the
   named objects, to exactly the stated values *)
Theorem sets_change_exactly_the_named_objects :
  forall (st : Type) (get : st -> string -> N) (put : st -> string -> N -> st) (lit : string -> N),
  (forall s o v, get (put s o v) o = v) -> (forall s o o' v, o <> o' -> get (put s o v) o' = get s o') ->
  (forall rs t s o, (forall r, In r rs -> due_set t r = true -> r_object r <> o) -> get (apply_sets st put lit rs t s) o = get s o) /\
  (forall rs1 r rs2 t s, due_set t r = true -> (forall r', In r' rs2 -> due_set t r' = true -> r_object r' <> r_object r) ->
     get (apply_sets st put lit (rs1 ++ r :: rs2) t s) (r_object r) = lit (r_extra r)).
Proof.
  intros st get put lit H1 H2. split.
  - apply sets_leave_the_other_objects_alone; assumption.
  - apply a_due_set_rule_gives_the_stated_value; assumption.
Qed.
Print Assumptions sets_change_exactly_the_named_objects.

(* what is printed at a tick: exactly the objects of the show rules that fire (by tick, by period, on the rising
   edge of the valid flag, at the stop), each once *)
Theorem shown_objects_are_those_of_the_firing_rules : forall rs t was now exiting,
  NoDup (shown rs t was now exiting) /\
  forall o, In o (shown rs t was now exiting) <-> exists r, In r rs /\ r_object r = o /\ fires t was now exiting r = true.
Proof. intros. split; [apply shown_nodup|intros o; apply shown_spec]. Qed.
Print Assumptions shown_objects_are_those_of_the_firing_rules.

(* a suspended rule has no effect at all: a run is the run without the suspended rules, whatever the machine *)
Theorem suspended_rules_have_no_effect_in_a_run :
  forall (st : Type) (step : st -> st) get put lit valid n rs stop t s,
  run st step get put lit valid (filter is_active rs) stop n t s = run st step get put lit valid rs stop n t s.
Proof. intros. apply suspended_rules_do_nothing. Qed.
Print Assumptions suspended_rules_have_no_effect_in_a_run.

(* non-vacuity: a counter machine, a periodic set, an on-valid and an on-exit show *)
Example a_run_with_rules :
  let rs := [mkRule TRel 3 ASet "c" "10" false; mkRule TRel 2 AShow "c" "unsigned" false; mkRule TAbs 1 ASet "c" "77" true;
             mkRule TOnValid 0 AShow "d" "unsigned" false; mkRule TOnExit 0 AShow "c" "unsigned" false] in
  let get (s : N * N) (o : string) := if String.eqb o "c" then fst s else snd s in
  let put (s : N * N) (o : string) (v : N) := if String.eqb o "c" then (v, snd s) else (fst s, v) in
  let step (s : N * N) := (fst s + 1, fst s)%N in
  let valid (s : N * N) (o : string) := (12 <=? fst s)%N in
  run (N * N) step get put (fun _ => 10%N) valid rs (Some "d") 8 0 (0%N, 0%N) =
    [[11]; [11]; [12]]%N.
Proof. vm_compute. reflexivity. Qed.
