(* C01 — generated processor HDL executes programs exactly as the ISA simulator does.
   The comparison itself is between the real generated Verilog, run under Vlog.Sem, and the Go
   simulator; what is proved here is that comparing at retire points is the right comparison:
   a run that only repeats states (the hardware taking several clocks for one instruction) has the
   same retire trace as the run without the repetitions. *)
From Coq Require Import List Arith Bool.
Import ListNotations.

Section Retire.
Variable S : Type.
Variable eqb : S -> S -> bool.
Hypothesis eqb_spec : forall a b, eqb a b = true <-> a = b.

(* consecutive duplicates removed *)
Fixpoint dedupe (l : list S) : list S :=
  match l with
  | x :: ((y :: _) as r) => if eqb x y then dedupe r else x :: dedupe r
  | _ => l
  end.

(* one trace stutters the other: every state may be repeated any number of times (at least once) *)
Inductive stutters : list S -> list S -> Prop :=
| st_nil : stutters [] []
| st_keep : forall x h g, stutters h g -> stutters (x :: h) (x :: g)
| st_rep : forall x h g, stutters (x :: h) (x :: g) -> stutters (x :: x :: h) (x :: g).

Fact eqb_refl x : eqb x x = true.
Proof. apply eqb_spec. reflexivity. Qed.

Fact dedupe_head x l : exists r, dedupe (x :: l) = x :: r.
Proof.
  revert x. induction l as [|y l IH]; intros x; simpl; [eauto|].
  destruct (eqb x y) eqn:E; [|eauto]. apply eqb_spec in E. subst y. apply IH.
Qed.

Fact dedupe_rep x l : dedupe (x :: x :: l) = dedupe (x :: l).
Proof. simpl. rewrite eqb_refl. reflexivity. Qed.

Fact dedupe_cons_cong x h g : dedupe (x :: h) = dedupe (x :: g) -> forall y, dedupe (y :: x :: h) = dedupe (y :: x :: g).
Proof. intros H y. simpl in *. destruct (eqb y x); [exact H|]. f_equal. exact H. Qed.

Theorem stuttering_run_has_the_same_retire_trace : forall h g, stutters h g -> dedupe h = dedupe g.
Proof.
  induction 1 as [|x h g _ IH|x h g _ IH].
  - reflexivity.
  - destruct h as [|a h]; destruct g as [|b g]; simpl in *; auto.
    + destruct (dedupe_head b g) as [r Hr]. simpl in Hr. rewrite Hr in IH. discriminate.
    + destruct (dedupe_head a h) as [r Hr]. simpl in Hr. rewrite Hr in IH. discriminate.
    + destruct (dedupe_head a h) as [r1 H1]. destruct (dedupe_head b g) as [r2 H2].
      simpl in H1, H2. rewrite H1, H2 in IH. inversion IH; subst b.
      destruct (eqb x a); [rewrite H1, H2; exact IH|]. f_equal. rewrite H1, H2. exact IH.
  - rewrite dedupe_rep. exact IH.
Qed.
End Retire.
Print Assumptions stuttering_run_has_the_same_retire_trace.
