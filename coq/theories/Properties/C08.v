(* C08 — a numeric literal has one meaning; printing then parsing returns it.
   Statements only.  The per-run theorems about the matchers registered in /repo's current
   tree (pairwise disjointness, order independence of ImportString) are in
   generated/C08_obligations.v, regenerated from bmnumbers.AllMatchers on every run. *)
From Coq Require Import String NArith List Bool Permutation.
From BM Require Import Base.Bits Front.Regex Front.Numbers Proofs.RegexProofs Proofs.NumbersProofs.
Import ListNotations.
Local Open Scope N_scope.

(* the disjointness decision procedure only says "disjoint" when the languages are disjoint *)
Theorem disjoint_check_sound : forall r1 r2 fuel,
  disjointb r1 r2 fuel = true -> forall s, matches r1 s && matches r2 s = false.
Proof. exact disjointb_sound. Qed.
Print Assumptions disjoint_check_sound.

Theorem pairwise_by_check : forall fuel l,
  all_pairs_disjoint fuel l = true ->
  forall i j ri rj, i <> j -> nth_error l i = Some ri -> nth_error l j = Some rj ->
  forall s, matches ri s && matches rj s = false.
Proof. exact all_pairs_disjoint_sound. Qed.
Print Assumptions pairwise_by_check.

(* with pairwise disjoint matchers, the first match does not depend on the visiting order *)
Theorem first_match_order_independent : forall (A B : Type) (l1 l2 : list ((A -> bool) * B)) (s : A),
  (forall i j a b, i <> j -> nth_error l1 i = Some a -> nth_error l1 j = Some b -> fst a s && fst b s = false) ->
  Permutation l1 l2 ->
  option_map snd (find (fun m => fst m s) l1) = option_map snd (find (fun m => fst m s) l2).
Proof. exact @find_unique_perm. Qed.
Print Assumptions first_match_order_independent.

(* exporting a representable value as text and importing the text gives the same type, width and bits *)
Theorem roundtrip_unsigned : forall n,
  nty n = TUnsigned -> representable n = true -> import_as NPlain (export_string n) = Some n.
Proof. exact roundtrip_unsigned_all. Qed.
Print Assumptions roundtrip_unsigned.

Theorem roundtrip_hex : forall n,
  nty n = THex -> representable n = true -> import_as NHexSized (export_string n) = Some n.
Proof. exact roundtrip_hex_all. Qed.
Print Assumptions roundtrip_hex.

Theorem roundtrip_bin : forall n,
  nty n = TBin -> representable n = true -> import_as NBinSized (export_string n) = Some n.
Proof. exact roundtrip_bin_all. Qed.
Print Assumptions roundtrip_bin.

(* the binary / Verilog exports have exactly the stated width *)
Theorem nbits_length : forall n k b, export_binary_nbits n k = Some b -> List.length b = k.
Proof. exact nbits_length_all. Qed.
Print Assumptions nbits_length.

Theorem verilog_binary_width : forall n,
  nval n < 2 ^ nbits n -> 1 <= nbits n ->
  List.length (snd (export_verilog_binary n)) = N.to_nat (fst (export_verilog_binary n)).
Proof. exact verilog_binary_width_all. Qed.
Print Assumptions verilog_binary_width.

(* non-vacuity and the recorded defect: a sized unsigned number is exported without its width,
   so the text denotes a 64-bit number (finding c08_sized_unsigned_export_drops_width) *)
Example ex_roundtrips :
  import_as NHexSized (export_string (mkNum THex 16 0xabc)) = Some (mkNum THex 16 0xabc) /\
  import_as NBinSized (export_string (mkNum TBin 5 5)) = Some (mkNum TBin 5 5) /\
  export_string (mkNum THex 16 0xabc) = "0x<16>abc"%string.
Proof. vm_compute. repeat split; reflexivity. Qed.

Example roundtrip_sized_unsigned_refuted :
  exists n, import_as N0uSized "0u<8>255" = Some n /\ nbits n = 8 /\
            import_as NPlain (export_string n) = Some (mkNum TUnsigned 64 255) /\
            import_as NPlain (export_string n) <> Some n.
Proof. exists (mkNum TUnsigned 8 255). vm_compute. repeat split; try reflexivity. discriminate. Qed.

(* the decision procedure does find overlaps: the two matchers of finding F4 (before the fix) *)
Definition digit := Cls false [(48, 57)].
Definition old_0u_dot := Cat (lit [48; 117]) (Cat (plus digit) (Cat (Cls true [(10, 10)]) (plus (lit [48])))).
Definition plain_0u := Cat (lit [48; 117]) (plus digit).
Example f4_overlap_found : common_word plain_0u old_0u_dot 2000 = Some [48; 117; 48; 48; 48].
Proof. vm_compute. reflexivity. Qed.
