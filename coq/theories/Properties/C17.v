(* C17 — finished simulations leave no workers behind.
   Two layers: (1) the worker protocol (Front.Barrier): every worker that Launch_processors starts
   is back at its select when a Step has returned, and closing the quit channel (VM.Stop) lets
   every one of them exit, in every interleaving; without Stop no transition ever removes a
   worker.  (2) the bookkeeping over histories of calls (Front.Leak). *)
From Coq Require Import List Arith Lia.
From BM Require Import Front.Barrier Proofs.BarrierProofs Front.Leak.
Import ListNotations.

(* a Step always completes and leaves every worker waiting for its next instruction *)
Theorem step_round_completes : forall n s, RInv n s ->
  (b_main s <> MIdle -> exists s', bstep s s') /\
  (b_main s = MIdle -> Forall (fun w => w = WDone) (b_ws s) /\ NoDup (b_log s) /\ forall j, j < n -> In j (b_log s)).
Proof. intros n s I. split; [apply (round_progress n); auto|apply (round_end n); auto]. Qed.
Print Assumptions step_round_completes.

Theorem step_round_terminates : forall n s s', RInv n s -> b_main s <> MIdle -> bstep s s' ->
  RInv n s' /\ measure s' < measure s.
Proof. intros. split; [eapply rinv_step; eauto|eapply round_terminates; eauto]. Qed.
Print Assumptions step_round_terminates.

(* workers only ever disappear after Stop; before it the number of live workers is constant *)
Theorem workers_persist_without_stop : forall s s', bstep s s' ->
  live s' <= live s /\ (live s' < live s -> b_main s = MStopped).
Proof. exact live_monotone. Qed.
Print Assumptions workers_persist_without_stop.

(* Stop, called between two Steps, releases every worker *)
Theorem stop_releases_every_worker : forall n s, RInv n s -> b_main s = MIdle ->
  bstep s (mkB MStopped (b_ws s) (b_log s)) /\
  exists ws', bsteps (mkB MStopped (b_ws s) (b_log s)) (mkB MStopped ws' (b_log s)) /\ live (mkB MStopped ws' (b_log s)) = 0.
Proof.
  intros n s I Hm. split.
  - destruct s as [m ws log]; simpl in *; subst. apply T_stop.
  - apply stop_releases_all. eapply stop_after_round_is_clean; eauto.
Qed.
Print Assumptions stop_releases_every_worker.

(* bookkeeping: any number of complete single-shot simulations leaves nothing behind *)
Theorem no_growth : forall h, only_simulations h -> live_after h = zero.
Proof.
  intros h H. unfold live_after. assert (G : forall c, fold_left after_call h c = c).
  { induction h as [|k h IH]; intro c; simpl; auto.
    destruct (H k (or_introl eq_refl)) as [p ->]. simpl. apply IH. intros k' Hk'. apply H. right; auto. }
  apply G.
Qed.
Print Assumptions no_growth.

(* the code before the fix: n simulations of a P-processor machine leave n*(P+1) workers *)
Theorem no_growth_refuted_without_stop : forall n p,
  total (live_after (repeat (SimulateNoStop p) n)) = n * (p + 1).
Proof.
  intros n p. unfold live_after.
  assert (G : forall c, total (fold_left after_call (repeat (SimulateNoStop p) n) c) = total c + n * (p + 1)).
  { induction n as [|n IH]; intro c; simpl; [lia|]. rewrite IH. unfold total; simpl. lia. }
  rewrite G. reflexivity.
Qed.
Print Assumptions no_growth_refuted_without_stop.

(* recorded finding: every assembler instance leaves its requirements server running *)
Example assemblies_leak : total (live_after [Assemble; Simulate 3; Assemble]) = 2.
Proof. reflexivity. Qed.

(* non-vacuity: a round of three workers from its start *)
Example ex_round : RInv 3 (round_start 3).
Proof. apply rinv_start. lia. Qed.
