(* C13 — generated stacks and queues never lose, duplicate or reorder an element.
   The theorems are about Gen.StackModel.step, the Gallina transcription of the template
   (pkg/bmstack/stackfile.go), for EVERY configuration (memory type, depth, data width, numbers of
   senders and receivers) and every input sequence.  The check ties the model to the emitted
   module: for small configurations model and circuit are compared on every state and input. *)
From Coq Require Import List NArith Bool Arith.
From BM Require Import Gen.StackModel Proofs.StackProofs.
Import ListNotations.
Local Open Scope N_scope.

(* the invariant holds after reset and is kept by every clock edge, whatever the agents do *)
Theorem invariant_always : forall c, wf_cfg c ->
  Inv c (reset_state c) /\ forall s i, Inv c s -> wf_inp c i -> Inv c (step c s i).
Proof. intros c WC. split; [apply inv_reset; auto|intros; apply step_inv_any; auto]. Qed.
Print Assumptions invariant_always.

(* empty/full always reflect the number of stored elements *)
Theorem flags_exact : forall c s, Inv c s ->
  (is_empty s = true <-> abs c s = []) /\ (is_full c s = true <-> length (abs c s) = c_depth c).
Proof. exact flags_reflect_contents. Qed.
Print Assumptions flags_exact.

(* an acknowledged read returns exactly the element the discipline prescribes and removes it *)
Theorem acked_read_pops : forall c, wf_cfg c -> forall s, Inv c s -> forall i, wf_inp c i -> i_reset i = false ->
  forall k, read_fires c s i k = true ->
  exists x, abs c s = x :: abs c (step c s i) /\ nthn (rdata (step c s i)) k = x /\ (k < c_rcv c)%nat.
Proof. intros; eapply step_read; eauto. Qed.
Print Assumptions acked_read_pops.

(* an acknowledged write stores its value exactly once (LIFO: on top, FIFO: at the end) *)
Theorem acked_write_pushes : forall c, wf_cfg c -> forall s, Inv c s -> forall i, wf_inp c i -> i_reset i = false ->
  forall k, write_fires c s i k = true ->
  abs c (step c s i) = push c (msk (c_dsize c) (nthn (i_wdata i) k)) (abs c s) /\ (k < c_snd c)%nat.
Proof. intros; eapply step_write; eauto. Qed.
Print Assumptions acked_write_pushes.

(* and nothing else ever changes the contents *)
Theorem otherwise_unchanged : forall c, wf_cfg c -> forall s, Inv c s -> forall i, wf_inp c i -> i_reset i = false ->
  (forall k, read_fires c s i k = false) -> (forall k, write_fires c s i k = false) ->
  abs c (step c s i) = abs c s.
Proof. intros; eapply step_idle; eauto. Qed.
Print Assumptions otherwise_unchanged.

(* an acknowledge line rises exactly in the cycle of its transfer: no ack without a transfer
   (in particular none when full / empty: the firing conditions contain not-full / not-empty) *)
Theorem read_ack_iff_transfer : forall c, wf_cfg c -> forall s, Inv c s -> forall i, wf_inp c i -> i_reset i = false ->
  forall k, (k < c_rcv c)%nat ->
  (nthb (rack s) k = false /\ nthb (rack (step c s i)) k = true) <-> read_fires c s i k = true.
Proof. intros; eapply rack_rises; eauto. Qed.
Print Assumptions read_ack_iff_transfer.

Theorem write_ack_iff_transfer : forall c, wf_cfg c -> forall s, Inv c s -> forall i, wf_inp c i -> i_reset i = false ->
  forall k, (k < c_snd c)%nat ->
  (nthb (sack s) k = false /\ nthb (sack (step c s i)) k = true) <-> write_fires c s i k = true.
Proof. intros; eapply sack_rises; eauto. Qed.
Print Assumptions write_ack_iff_transfer.

(* a continuously requesting agent is acknowledged within (number of agents) cycles once
   space / data is available and the interface is not busy with the other side *)
Theorem writer_served_within : forall c k, wf_cfg c -> (k < c_snd c)%nat ->
  forall n s ins, Inv c s -> (dist (c_snd c) k (N.to_nat (sendSM s)) <= n)%nat -> length ins = S n ->
    (forall j, (j <= n)%nat -> ready_w c k (after c s ins j) (nth j ins inp0)) ->
    exists j, (j <= n)%nat /\ write_fires c (after c s ins j) (nth j ins inp0) k = true.
Proof. exact write_ack_bounded. Qed.
Print Assumptions writer_served_within.

Theorem reader_served_within : forall c k, wf_cfg c -> (k < c_rcv c)%nat ->
  forall n s ins, Inv c s -> (dist (c_rcv c) k (N.to_nat (recvSM s)) <= n)%nat -> length ins = S n ->
    (forall j, (j <= n)%nat -> ready_r c k (after c s ins j) (nth j ins inp0)) ->
    exists j, (j <= n)%nat /\ read_fires c (after c s ins j) (nth j ins inp0) k = true.
Proof. exact read_ack_bounded. Qed.
Print Assumptions reader_served_within.

(* non-vacuity: a FIFO of depth 3 with two senders; after two writes and one read *)
Definition exc := mkCfg FIFO 3 4 2 1.
Definition wr (k : nat) (v : N) := mkInp false (setn k true [false; false]) (setn k v [0; 0]) [false].
Definition idle := mkInp false [false; false] [0; 0] [false].
Definition rd := mkInp false [false; false] [0; 0] [true].
Example ex_fifo_order :
  let s3 := fold_left (step exc) [wr 0 5; idle; wr 1 9; wr 1 9; idle] (reset_state exc) in
  abs exc s3 = [5; 9] /\ abs exc (step exc s3 rd) = [9] /\ nthn (rdata (step exc s3 rd)) 0 = 5.
Proof. vm_compute. repeat split; reflexivity. Qed.
