(* C10 — editing a machine's topology never corrupts the bonds it does not touch.
   Only statements; proofs are in Proofs/TopoProofs.v. *)
From Coq Require Import List ZArith.
From BM Require Import Net.Topo Proofs.TopoProofs Net.TopoCli.
Import ListNotations.

(* every machine reachable from the empty machine by any sequence of API edits
   (including edits with negative / too-large indices and names of nothing) is well formed *)
Theorem edits_preserve_wf : forall (d : list (nat * nat)) (ops : list op), wf (run d ops).
Proof. exact edits_preserve_wf_all. Qed.
Print Assumptions edits_preserve_wf.

(* and its bond set is the one the name-level specification computes *)
Theorem edits_refine_spec : forall d ops, seq (abs (run d ops)) (snd (run2 d ops)).
Proof. intros d ops. exact (proj2 (edits_refine_spec_all d ops)). Qed.
Print Assumptions edits_refine_spec.

(* one step, from any well-formed machine (not only reachable ones) *)
Theorem edit_refines_spec : forall b o, wf b -> wf (step b o) /\ seq (abs (step b o)) (spec_apply (abs b) (abs_op b o)).
Proof. intros b o W. split; [exact (wf_step b o W) | exact (step_refines b o W)]. Qed.
Print Assumptions edit_refines_spec.

(* a bond not addressed by the edit still joins the same two named endpoints,
   modulo the documented renumbering of external ports above a deleted one *)
Theorem untouched_bonds_unchanged : forall b o s e,
  wf b -> In (s, e) (bond_set b) -> ~ touches (abs b) (abs_op b o) (s, e) ->
  In (rename_src (abs_op b o) s, rename_snk (abs_op b o) e) (bond_set (step b o)).
Proof. exact untouched_bonds_unchanged_all. Qed.
Print Assumptions untouched_bonds_unchanged.

(* non-vacuity: a reachable machine with interleaved processor/external endpoints and three
   bonds; deleting external input 0 keeps the bond of input 1 (renumbered to i0) and the
   processor-to-processor bond, and removes exactly the bond of the deleted input *)
Definition ex_ops : list op :=
  [AddInput; AddProc 0; AddInput; AddOutput; AddProc 0;
   AddBond (Name (PI 0 0)) (Name (BI 0)); AddBond (Name (BI 1)) (Name (PI 1 1));
   AddBond (Name (PO 0 1)) (Name (BO 0)); AddBond (Name (PI 1 0)) (Name (PO 0 0))]%Z.
Example ex_state_nontrivial :
  bond_set (run [(2, 2)] ex_ops) = [(BI 0, PI 0 0); (PO 0 1, BO 0); (PO 0 0, PI 1 0); (BI 1, PI 1 1)] /\
  bond_set (step (run [(2, 2)] ex_ops) (DelInput 0)) = [(PO 0 1, BO 0); (PO 0 0, PI 1 0); (BI 0, PI 1 1)].
Proof. vm_compute. split; reflexivity. Qed.

(* the list forms of cmd/bondmachine's -del-inputs / -del-outputs (Net/TopoCli.v): the ids that exist are removed,
   highest first; the order of the list, repeated ids and ids that do not exist make no difference, and the
   machine stays well formed *)
Theorem deleting_a_list_of_outputs_depends_only_on_the_set_named : forall b ids1 ids2,
  (forall k, k < outputs b -> (In k ids1 <-> In k ids2)) -> cli_del_outputs b ids1 = cli_del_outputs b ids2.
Proof. exact del_outputs_list_is_a_set. Qed.
Print Assumptions deleting_a_list_of_outputs_depends_only_on_the_set_named.

Theorem deleting_a_list_of_inputs_depends_only_on_the_set_named : forall b ids1 ids2,
  (forall k, k < inputs b -> (In k ids1 <-> In k ids2)) -> cli_del_inputs b ids1 = cli_del_inputs b ids2.
Proof. exact del_inputs_list_is_a_set. Qed.
Print Assumptions deleting_a_list_of_inputs_depends_only_on_the_set_named.

Theorem list_deletions_preserve_wf : forall b ids, wf b -> wf (cli_del_outputs b ids) /\ wf (cli_del_inputs b ids).
Proof. exact list_deletions_keep_the_machine_well_formed. Qed.
Print Assumptions list_deletions_preserve_wf.
