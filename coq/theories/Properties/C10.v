(* placeholder, replaced once the proofs are in *)
From BM Require Import Net.Topo.
Theorem c10_placeholder : True. Proof. exact I. Qed.
Print Assumptions c10_placeholder.
