(* C05 — an assembled BASM program means what its source says (one .romtext section over the
   simulated instruction subset: labels, entry directive, mov pseudo-instruction, sizing) *)
From Coq Require Import List NArith Bool Arith String.
From BM Require Import Net.Topo Isa.Sim Net.Tick Net.TickCheck Front.Basm Front.BasmCheck Proofs.BasmProofs Proofs.BasmMachine.
Import ListNotations.

(* the assembled program and the source proceed in lock step: same registers, ports and flags after
   every number of simulator steps; the machine's program counter is the ROM address of the source's.
   This is where "labels resolve to the instruction that follows them", "removing the entry line
   shifts consistently" and "mov has the effect of the opcode it is replaced by" are proved. *)
Theorem assembled_program_means_what_the_source_says :
  forall sync rsize src prog s m n,
  assemble sync src = Some prog -> src_ok src -> Rel src s m ->
  Rel src (iter n (sstep sync rsize src) s) (iter n (pstep rsize prog) m).
Proof. exact assembled_program_follows_the_source. Qed.
Print Assumptions assembled_program_means_what_the_source_says.

(* the same for a whole machine: processors wired by bonds, every processor running the assembled program
   of its section, ticking together under any environment (external input values and valid flags, external
   received flags written before each tick): processor by processor the lock step holds after every tick,
   and everything outside the processors is equal *)
Theorem assembled_machine_means_what_its_sources_say :
  forall t cfgs procs envs, Forall2 assembled cfgs procs ->
  forall a b, VRel (map snd cfgs) a b -> VRel (map snd cfgs) (run_src t cfgs envs a) (run_rom t procs envs b).
Proof. exact machine_follows_the_sources. Qed.
Print Assumptions assembled_machine_means_what_its_sources_say.

(* started as the simulator starts it, with every entry label in front of its first instruction, the machine
   shows at its external outputs (values, valid flags) and input received flags what the sources say *)
Theorem assembled_machine_output_streams_are_the_sources :
  forall t cfgs procs rbits envs,
  Forall2 assembled cfgs procs -> entries_first cfgs = true -> List.length (Topo.procs t) = List.length cfgs ->
  let a := run_src t cfgs envs (start_at_entry cfgs (init_vm t rbits)) in
  let b := run_rom t procs envs (init_vm t rbits) in
  v_out a = v_out b /\ v_out_valid a = v_out_valid b /\ v_in_recv a = v_in_recv b.
Proof. exact machine_started_at_the_entries_follows_the_sources. Qed.
Print Assumptions assembled_machine_output_streams_are_the_sources.

(* the machine starts at ROM address 0; that is where the source starts when the entry label stands
   in front of the first instruction (the directive itself may be anywhere) *)
Theorem start_agrees_when_entry_is_first : forall src (p : pstate) e t,
  entries src = [e] -> label_pos src e = Some t -> addr src t = 0 ->
  Rel src (at_pc p t) (with_pc p 0%N).
Proof. exact initial_states_related. Qed.
Print Assumptions start_agrees_when_entry_is_first.

(* otherwise it does not: the unused "entry" metadata (entrypoints.go) — a concrete section whose
   machine writes 5 where the source says 0 *)
Definition bad_src : source :=
  [IEntry "go"; IOp [] (SPlain (IRset 1 5)); IOp ["go"%string] (SPlain (ICpy 0 1)); IOp [] (SPlain (IR2o 0 0)); IOp ["h"%string] (SJ "h")].
Example start_ignores_entry_refuted :
  exists prog, assemble false bad_src = Some prog /\
    let s0 := at_pc (init_pstate 1 0 1) 2 in let m0 := init_pstate 1 0 1 in
    outputs (iter 4 (sstep false 8 bad_src) s0) = [0%N] /\ outputs (iter 4 (pstep 8 prog) m0) = [5%N].
Proof. eexists. split; [reflexivity|]. vm_compute. auto. Qed.

(* the sizes the assembler derives are large enough for everything the program mentions *)
Theorem inferred_architecture_fits : forall prog, fits (infer prog) prog = true.
Proof. exact inferred_sizes_fit. Qed.
Print Assumptions inferred_architecture_fits.

(* the hypotheses are satisfiable: a section with a loop, a forward jump, the directive in the middle *)
Definition good_src : source :=
  [IOp ["_start"%string] (SMovRN 0 3); IEntry "_start"; IOp ["loop"%string] (SMovRI 1 0); IOp [] (SPlain (IAdd 0 1));
   IOp [] (SMovOR 0 0); IOp [] (SJz 1 "_start"); IOp [] (SJ "loop")].
Example good_src_assembles :
  assemble true good_src = Some [IRset 0 3; II2rw 1 0; IAdd 0 1; IR2owa 0 0; IJz 1 0; IJ 1] /\ addr good_src 0 = 0.
Proof. split; reflexivity. Qed.
