(* C11 — saving and reloading a machine loses nothing.
   The statements about the machine records themselves are generated with the model on every run
   (generated/C11_obligations.v, from lib/c11.py, over generated/GenJson.v); here are the facts about
   the Go loop shapes they rest on, which do not depend on the field lists. *)
From Coq Require Import List String ZArith Bool.
From BM Require Import Front.Json.
Import ListNotations.

(* a list of opcode slots survives "save the names, look the names up again" exactly when every slot
   is registered under its own name *)
Theorem saved_names_resolve_back : forall (name : op -> string) (resolve : string -> option op) (l : list (option op)),
  Forall (slot_registered name resolve) l ->
  copy_loop resolve (copy_loop (name_of op name) l) = l.
Proof. exact (@slots_roundtrip op). Qed.
Print Assumptions saved_names_resolve_back.

(* the registry growing while a file is being loaded does not change what other names mean, for
   either lookup direction: the result of Dejsoner does not depend on the order of the names *)
Theorem registry_growth_is_harmless : forall dyn all n m,
  (forall o, dyn n = Some o -> op_name o = n) -> m <> n ->
  lookup_last op op_name (ensure dyn all n) m = lookup_last op op_name all m /\
  lookup_first op op_name (ensure dyn all n) m = lookup_first op op_name all m.
Proof. intros. split; [apply ensure_other_last | apply ensure_other_first]; assumption. Qed.
Print Assumptions registry_growth_is_harmless.

(* whatever a name resolves to carries that name *)
Theorem resolved_opcode_has_the_name : forall all n x, lookup_first op op_name all n = Some x -> op_name x = n /\ In x all.
Proof. intros. split; [eapply name_resolve | eapply lookup_first_in]; eauto. Qed.
Print Assumptions resolved_opcode_has_the_name.
