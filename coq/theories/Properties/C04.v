(* C04 — a bond delivers every value exactly once, in order, to every consumer.
   Two systems (the simulator's protocol and the generated hardware's), any number of consumers,
   any schedule of IO / non-IO instructions on either side.  The schedule hypotheses [s_ok]/[h_ok]
   are what the protocols really need (finding F2: without them both implementations lose or
   duplicate values; see the _refuted examples). *)
From Coq Require Import List NArith Bool Arith.
From BM Require Import Net.Handshake Proofs.HandshakeProofs.
Import ListNotations.

(* simulator: along every well-spaced schedule, for every number of consumers, every consumer's
   stream is a prefix of the offered stream and at most one value behind *)
Theorem bond_exactly_once_sim_partial : forall k sched,
  s_ok_run (s_init k) sched = true ->
  let s := s_run (s_init k) sched in spec_ok (s_offered s) (map sc_got (s_cons s)) = true.
Proof. intros k sched H. apply s_inv_spec. apply s_run_inv; auto. apply s_init_inv. Qed.
Print Assumptions bond_exactly_once_sim_partial.

Theorem bond_exactly_once_hdl_partial : forall k sched,
  h_ok_run (h_init k) sched = true ->
  let s := h_run (h_init k) sched in spec_ok (h_offered s) (map hc_got (h_cons s)) = true.
Proof. intros k sched H. apply h_inv_spec. apply h_run_inv; auto. apply h_init_inv. Qed.
Print Assumptions bond_exactly_once_hdl_partial.

(* neither side proceeds past its IO instruction before the transfer has happened *)
Theorem producer_blocks_sim : forall s pa cas,
  SInv s -> s_ok s pa cas = true -> sp_sent (s_prod (s_step s pa cas)) <> sp_sent (s_prod s) ->
  sp_valid (s_prod s) = true /\
  sp_sent (s_prod (s_step s pa cas)) = sp_sent (s_prod s) ++ [sp_data (s_prod s)] /\
  Forall (fun c => sc_got c = sp_sent (s_prod s) ++ [sp_data (s_prod s)]) (s_cons s).
Proof. exact s_producer_blocks. Qed.
Print Assumptions producer_blocks_sim.

Theorem producer_blocks_hdl : forall s pa cas,
  HInv s -> h_ok s pa cas = true -> hp_sent (h_prod (h_step s pa cas)) <> hp_sent (h_prod s) ->
  hp_wait (h_prod s) = true /\ hp_val (h_prod s) = true /\
  hp_sent (h_prod (h_step s pa cas)) = hp_sent (h_prod s) ++ [hp_aux (h_prod s)] /\
  Forall (fun c => hc_got c = hp_sent (h_prod s) ++ [hp_aux (h_prod s)]) (h_cons s).
Proof. exact h_producer_blocks. Qed.
Print Assumptions producer_blocks_hdl.

Theorem consumer_blocks_sim : forall V Dt c a,
  sc_got (sc_step V Dt c a) <> sc_got c -> a = CIo /\ V = true /\ sc_got (sc_step V Dt c a) = sc_got c ++ [Dt].
Proof. exact s_consumer_blocks. Qed.
Print Assumptions consumer_blocks_sim.

Theorem consumer_blocks_hdl : forall V Dt c a,
  hc_got (hc_step V Dt c a) <> hc_got c -> a = CIo /\ V = true /\ hc_got (hc_step V Dt c a) = hc_got c ++ [Dt].
Proof. exact h_consumer_blocks. Qed.
Print Assumptions consumer_blocks_hdl.

(* the invariants are inductive for every state, not only reachable ones *)
Theorem invariants_inductive :
  (forall s pa cas, SInv s -> s_ok s pa cas = true -> SInv (s_step s pa cas)) /\
  (forall s pa cas, HInv s -> h_ok s pa cas = true -> HInv (h_step s pa cas)).
Proof. split; [exact s_step_inv|exact h_step_inv]. Qed.
Print Assumptions invariants_inductive.

(* ---- non-vacuity: a well-spaced schedule that transfers two values to two consumers ---- *)
Definition ex_sched : list (pact * list cact) :=
  [(PIo 7, [CIo; CIdle]); (PIo 7, [CIo; CIdle]); (PIo 7, [CIdle; CIo]); (PIo 7, [CIdle; CIdle]);
   (PIdle, [CIdle; CIdle]); (PIo 9, [CIo; CIo]); (PIo 9, [CIo; CIo]); (PIo 9, [CIdle; CIdle])]%N.
Example ex_sim_two_consumers :
  s_ok_run (s_init 2) ex_sched = true /\
  map sc_got (s_cons (s_run (s_init 2) ex_sched)) = [[7; 9]; [7; 9]]%N /\
  sp_sent (s_prod (s_run (s_init 2) ex_sched)) = [7; 9]%N.
Proof. vm_compute. repeat split; reflexivity. Qed.

(* ---- the unrestricted statements are false (finding F2) ---- *)
(* simulator, one consumer: two r2owa back to back lose the second value *)
Example bond_exactly_once_sim_refuted_producer :
  let sched := [(PIo 1, [CIo]); (PIo 1, [CIo]); (PIo 1, [CIdle]); (PIo 2, [CIdle]); (PIdle, [CIdle]);
                (PIo 3, [CIo]); (PIo 3, [CIo]); (PIo 3, [CIdle])]%N in
  let s := s_run (s_init 1) sched in
  s_ok_run (s_init 1) sched = false /\ sp_sent (s_prod s) = [1; 2; 3]%N /\ map sc_got (s_cons s) = [[1; 3]]%N /\
  spec_ok (s_offered s) (map sc_got (s_cons s)) = false.
Proof. vm_compute. repeat split; reflexivity. Qed.

(* simulator, one consumer: two i2rw back to back read the value twice *)
Example bond_exactly_once_sim_refuted_consumer :
  let sched := [(PIo 1, [CIo]); (PIo 1, [CIo]); (PIo 1, [CIo])]%N in
  let s := s_run (s_init 1) sched in
  s_ok_run (s_init 1) sched = false /\ map sc_got (s_cons s) = [[1; 1]]%N /\
  spec_ok (s_offered s) (map sc_got (s_cons s)) = false.
Proof. vm_compute. repeat split; reflexivity. Qed.

(* simulator, two consumers of unequal speed: the fast one re-reads while valid is held for the slow one *)
Example bond_exactly_once_sim_refuted_fanout :
  let sched := [(PIo 1, [CIo; CIdle]); (PIo 1, [CIo; CIdle]); (PIo 1, [CIdle; CIdle]); (PIo 1, [CIdle; CIdle]);
                (PIo 1, [CIo; CIdle])]%N in
  let s := s_run (s_init 2) sched in
  s_ok_run (s_init 2) sched = false /\ map sc_got (s_cons s) = [[1; 1]; []]%N.
Proof. vm_compute. repeat split; reflexivity. Qed.

(* hardware, one consumer re-arming one clock after its capture reads the value again *)
Example bond_exactly_once_hdl_refuted_consumer :
  let sched := [(PIo 1, [CIdle]); (PIo 1, [CIdle]); (PIo 1, [CIo]); (PIo 1, [CIdle]); (PIdle, [CIo])]%N in
  let s := h_run (h_init 1) sched in
  h_ok_run (h_init 1) sched = false /\ map hc_got (h_cons s) = [[1; 1]]%N.
Proof. vm_compute. repeat split; reflexivity. Qed.

(* ---- static corollaries for one consumer: fixed padding keeps every execution inside the hypotheses ---- *)
From BM Require Import Net.HandshakeLoop Proofs.HandshakeLoopProofs.

(* simulator: at least one non-IO instruction after every IO instruction on either side *)
Theorem sim_one_consumer_padding : forall padp padc vals reads n,
  1 <= padp -> 1 <= padc ->
  let '(s, p, c) := sl_run padp padc n (s_init 1, mkPC vals 0, mkCC reads 0) in
  s_ok s (p_action p) [c_action c] = true /\ spec_ok (s_offered s) (map sc_got (s_cons s)) = true.
Proof. exact sim_padding_suffices. Qed.
Print Assumptions sim_one_consumer_padding.

(* hardware: one on the producer's side, two on the consumer's *)
Theorem hdl_one_consumer_padding : forall padp padc vals reads n,
  1 <= padp -> 2 <= padc ->
  let '(s, p, c) := hl_run padp padc n (h_init 1, mkPC vals 0, mkCC reads 0) in
  h_ok s (p_action p) [c_action c] = true /\ spec_ok (h_offered s) (map hc_got (h_cons s)) = true.
Proof. exact hdl_padding_suffices. Qed.
Print Assumptions hdl_one_consumer_padding.

(* non-vacuity: three values really go through with the minimal paddings *)
Example ex_padding_runs :
  map sc_got (s_cons (fst (fst (sl_run 1 1 40 (s_init 1, mkPC [4; 5; 6]%N 0, mkCC 3 0))))) = [[4; 5; 6]]%N /\
  map hc_got (h_cons (fst (fst (hl_run 1 2 60 (h_init 1, mkPC [4; 5; 6]%N 0, mkCC 3 0))))) = [[4; 5; 6]]%N.
Proof. vm_compute. split; reflexivity. Qed.
