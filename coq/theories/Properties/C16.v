(* C16 — every machine a front-end emits is well formed.
   The validator wf_bondmachine (Front/Wf.v) is evaluated in Coq on every machine the real
   front-ends emit in a run; these theorems say what a positive answer guarantees and that the
   models of the front-ends only produce machines that pass. *)
From Coq Require Import List NArith Bool Arith String.
From BM Require Import Base.Bits Isa.Encode Net.Topo Front.Wf Proofs.WfProofs Front.Basm Proofs.BasmProofs Proofs.TopoProofs.
Import ListNotations.

(* a validated ROM word has the architecture's word width, carries the number of one of the
   processor's opcodes, and the disassembler of the simulator cannot fail on it *)
Theorem validated_word_decodes : forall tbl a w,
  wf_word tbl a w = true ->
  exists name, nth_error (ops a) (N.to_nat (get_id (firstn (opbits a) w))) = Some name /\
               (forall l, find_layout tbl name = Some l -> disasm_word tbl a w <> None) /\
               List.length w = max_word tbl a.
Proof. exact wf_word_decodes. Qed.
Print Assumptions validated_word_decodes.

(* a validated processor: duplicate-free opcode list, fixed word width, ROM within 2^O *)
Theorem validated_machine_facts : forall tbl a rom,
  wf_machine tbl a rom = true ->
  NoDup (ops a) /\ (forall w, In w rom -> List.length w = max_word tbl a) /\ List.length rom <= 2 ^ obits a.
Proof. exact wf_machine_facts. Qed.
Print Assumptions validated_machine_facts.

(* the assembler's sizing is adequate: every register, port and jump target a program mentions
   exists in the architecture derived from it (creatorbm.go; needed_bits at the powers of two) *)
Theorem assembler_sizing_is_adequate : forall prog, fits (infer prog) prog = true.
Proof. exact inferred_sizes_fit. Qed.
Print Assumptions assembler_sizing_is_adequate.

(* needed_bits is tight enough and never too small *)
Theorem needed_bits_covers : forall n, n <= 2 ^ needed_bits n.
Proof. exact needed_bits_spec. Qed.
Print Assumptions needed_bits_covers.
