(* C07 — every build step is a function of its inputs.
   A Gallina function cannot be nondeterministic, so the models take what the Go runtime chooses —
   the order in which a map is visited, the interleaving of the compiler's workers — as an explicit
   argument, and the theorems say the result does not depend on it. *)
From Coq Require Import List String Bool Arith Permutation.
From BM Require Import Front.Order Proofs.OrderProofs Front.BondgoProto Proofs.BondgoProtoProofs.
Import ListNotations.

(* 1. loops whose bodies commute (accumulate a maximum, write under their own key, add to a set):
      any two visiting orders of the same keys give the same state *)
Theorem commuting_visits_are_order_free : forall (K S : Type) (visit : S -> K -> S),
  (forall s a b, visit (visit s a) b = visit (visit s b) a) ->
  forall o1 o2, Permutation o1 o2 -> forall s, visit_all visit o1 s = visit_all visit o2 s.
Proof. exact @visit_all_perm. Qed.
Print Assumptions commuting_visits_are_order_free.

Theorem commuting_visits_under_an_invariant : forall (K S : Type) (visit : S -> K -> S) (Inv : S -> Prop),
  (forall s a, Inv s -> Inv (visit s a)) ->
  (forall s a b, Inv s -> visit (visit s a) b = visit (visit s b) a) ->
  forall o1 o2, Permutation o1 o2 -> forall s, Inv s -> visit_all visit o1 s = visit_all visit o2 s.
Proof. exact @visit_all_perm_inv. Qed.
Print Assumptions commuting_visits_under_an_invariant.

(* 2. requirement accumulation as a maximum (bmreqs objectMax, bondgo usage monitor) *)
Theorem max_requirement_is_order_free : forall o1 o2 s, Permutation o1 o2 -> max_all o1 s = max_all o2 s.
Proof. intros. apply visit_all_perm; auto. exact max_commutes. Qed.
Print Assumptions max_requirement_is_order_free.

(* 3. passes that write under a key derived from the loop key: every lookup in the resulting table
      is the same whatever the order *)
Theorem keyed_writes_are_order_free : forall (K V : Type) (eqb : K -> K -> bool) (f : K -> V),
  (forall a b, eqb a b = true <-> a = b) ->
  forall o1 o2, Permutation o1 o2 -> forall s q,
  lookup eqb (visit_all (keyed_write eqb f) o1 s) q = lookup eqb (visit_all (keyed_write eqb f) o2 s) q.
Proof. exact @keyed_writes_observably_order_free. Qed.
Print Assumptions keyed_writes_are_order_free.

(* 4. the processor's opcode list: objectSet.getReqs answers in map order, creatorbm keeps the
      registered opcodes named in the answer — the same list for every order of either answer *)
Theorem opcode_list_is_order_free : forall (O : Type) (name : O -> string) registry rom1 rom2 ram1 ram2,
  Permutation rom1 rom2 -> Permutation ram1 ram2 ->
  select_ops name registry (get_reqs rom1) (get_reqs ram1) = select_ops name registry (get_reqs rom2) (get_reqs ram2).
Proof. intros. apply select_ops_perm; assumption. Qed.
Print Assumptions opcode_list_is_order_free.

(* 5. goroutine timing inside the Go-subset compiler: every complete run of the three workers ends
      with the same requirement, whatever the interleaving (C12's protocol model) *)
Theorem compiler_result_is_schedule_free : forall prog s1 s2,
  reach (init prog order_fixed) s1 -> final s1 = true ->
  reach (init prog order_fixed) s2 -> final s2 = true -> reqs s1 = reqs s2.
Proof. intros prog s1 s2 R1 F1 R2 F2. rewrite (final_requirements prog s1 R1 F1), (final_requirements prog s2 R2 F2). reflexivity. Qed.
Print Assumptions compiler_result_is_schedule_free.
