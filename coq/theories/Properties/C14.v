(* C14 — compiled quantum circuits implement the circuit's unitary.
   Proved here, for matrices over any commutative ring (multiplication associative, commutative,
   with unit and absorbing zero): every layer the compiler emits is the simultaneous application
   of the layer's gates to the qubits they name, identity elsewhere — for every number of qubits,
   every gate arity and every assignment of qubits to gates (adjacent or not, in any order).
   This is the statement about BmMatrixFromOperation as repaired by e051db6 (localOrder holds
   positions); the code before the repair is refuted below.  Over any commutative semiring it is
   further proved that the simultaneous application equals applying the gates one after the other
   (matrix products being associative) and hence that the product of the emitted matrices, later
   layers multiplying from the left, is the circuit's unitary: the gates embedded on the qubits they
   name, multiplied in program order.  With a conjugation on the coefficients (additive, multiplicative,
   fixing 0 and 1) every emitted matrix is unitary (M M* = M* M = 1) whenever the gates are, and the
   software simulation (the state vector multiplied by every emitted matrix in turn) maps every basis
   state to the corresponding column of that unitary. *)
From Coq Require Import List Arith Bool ZArith.
From BM Require Import Front.Quantum Front.QuantumSim Front.Cyclo8 Front.QuantumCheck Proofs.QuantumProofs Proofs.QuantumPlace Proofs.QuantumLayer Proofs.QuantumSeq Proofs.QuantumUnitary.
Import ListNotations.

Theorem compiled_layer_is_the_simultaneous_application_of_its_gates :
  forall (K : Type) (k0 k1 : K) (kmul : K -> K -> K),
  (forall a, kmul k1 a = a) -> (forall a, kmul a k1 = a) ->
  (forall a, kmul k0 a = k0) -> (forall a, kmul a k0 = k0) ->
  (forall a b c, kmul a (kmul b c) = kmul (kmul a b) c) -> (forall a b, kmul a b = kmul b a) ->
  forall (n : nat) (ops : list (qop K)),
  Forall (fun o => op_wf K n o = true) ops -> NoDup (touched K ops) -> 0 < n ->
  exists M, layer_matrix K k0 k1 kmul n ops = Ok M /\ nq M = n /\
            forall i j, length i = n -> length j = n -> ent M i j = ent (par_ref K k0 k1 kmul n ops) i j.
Proof. intros K k0 k1 kmul H1 H2 H3 H4 H5 H6 n ops Hwf Hd Hn. eapply layer_correct; eauto. Qed.
Print Assumptions compiled_layer_is_the_simultaneous_application_of_its_gates.

(* a whole circuit: every line well formed -> the compiler emits one matrix per layer and each is the
   simultaneous application of that layer's gates (the layers name disjoint qubits by construction) *)
Theorem circuit_compiles_layer_by_layer :
  forall (K : Type) (k0 k1 : K) (kmul : K -> K -> K),
  (forall a, kmul k1 a = a) -> (forall a, kmul a k1 = a) ->
  (forall a, kmul k0 a = k0) -> (forall a, kmul a k0 = k0) ->
  (forall a b c, kmul a (kmul b c) = kmul (kmul a b) c) -> (forall a b, kmul a b = kmul b a) ->
  forall (n : nat) (c : list (qop K)), 0 < n -> Forall (fun o => op_wf K n o = true) c ->
  exists ms, compile K k0 k1 kmul n c = Some ms /\
    Forall2 (fun M l => nq M = n /\ forall i j, length i = n -> length j = n -> ent M i j = ent (par_ref K k0 k1 kmul n l) i j)
            ms (circuit_layers K c).
Proof. intros K k0 k1 kmul H1 H2 H3 H4 H5 H6 n c Hn Hwf. eapply circuit_compiles; eauto. Qed.
Print Assumptions circuit_compiles_layer_by_layer.

(* the property's wording: the emitted matrices multiply to the unitary defined by applying each gate
   to the named qubits in program order *)
Theorem product_of_the_emitted_matrices_is_the_circuit_unitary :
  forall (K : Type) (k0 k1 : K) (kadd kmul : K -> K -> K),
  (forall a, kadd k0 a = a) -> (forall a, kadd a k0 = a) ->
  (forall a b c, kadd a (kadd b c) = kadd (kadd a b) c) -> (forall a b, kadd a b = kadd b a) ->
  (forall a, kmul k1 a = a) -> (forall a, kmul a k1 = a) ->
  (forall a, kmul k0 a = k0) -> (forall a, kmul a k0 = k0) ->
  (forall a b c, kmul a (kmul b c) = kmul (kmul a b) c) -> (forall a b, kmul a b = kmul b a) ->
  (forall a b c, kmul a (kadd b c) = kadd (kmul a b) (kmul a c)) ->
  forall (n : nat) (c : list (qop K)), 0 < n -> Forall (fun o => op_wf K n o = true) c ->
  exists ms, compile K k0 k1 kmul n c = Some ms /\
    nq (prod_left K k0 k1 kadd kmul n ms) = n /\
    forall i j, length i = n -> length j = n ->
      ent (prod_left K k0 k1 kadd kmul n ms) i j = ent (u_ref K k0 k1 kadd kmul n c) i j.
Proof.
  intros K k0 k1 kadd kmul A1 A2 A3 A4 M1 M2 M3 M4 M5 M6 D n c Hn Hwf.
  destruct (compiled_circuit_is_the_unitary K k0 k1 kadd kmul A1 A2 A3 A4 M1 M2 M3 M4 M5 M6 D n c Hn Hwf) as [ms [Hc [H1 [_ H3]]]].
  exists ms. auto.
Qed.
Print Assumptions product_of_the_emitted_matrices_is_the_circuit_unitary.


(* each emitted matrix is unitary: M M* = M* M = 1 on all basis states, when every gate of the circuit is *)
Theorem every_emitted_matrix_is_unitary :
  forall (K : Type) (k0 k1 : K) (kadd kmul : K -> K -> K) (kconj : K -> K),
  (forall a, kadd k0 a = a) -> (forall a, kadd a k0 = a) ->
  (forall a b c, kadd a (kadd b c) = kadd (kadd a b) c) -> (forall a b, kadd a b = kadd b a) ->
  (forall a, kmul k1 a = a) -> (forall a, kmul a k1 = a) ->
  (forall a, kmul k0 a = k0) -> (forall a, kmul a k0 = k0) ->
  (forall a b c, kmul a (kmul b c) = kmul (kmul a b) c) -> (forall a b, kmul a b = kmul b a) ->
  (forall a b c, kmul a (kadd b c) = kadd (kmul a b) (kmul a c)) ->
  kconj k0 = k0 -> kconj k1 = k1 ->
  (forall a b, kconj (kadd a b) = kadd (kconj a) (kconj b)) -> (forall a b, kconj (kmul a b) = kmul (kconj a) (kconj b)) ->
  forall (n : nat) (c : list (qop K)), 0 < n -> Forall (fun o => op_wf K n o = true) c ->
  Forall (fun o => unitary K k0 k1 kadd kmul kconj (nq (gate o)) (gate o)) c ->
  forall ms, compile K k0 k1 kmul n c = Some ms ->
  Forall (fun M => nq M = n /\
    (forall i j, length i = n -> length j = n ->
       ent (mmul K k0 kadd kmul M (dagger K kconj M)) i j = ent (ident K k0 k1 n) i j) /\
    (forall i j, length i = n -> length j = n ->
       ent (mmul K k0 kadd kmul (dagger K kconj M) M) i j = ent (ident K k0 k1 n) i j)) ms.
Proof.
  intros K k0 k1 kadd kmul kconj A1 A2 A3 A4 M1 M2 M3 M4 M5 M6 D C0 C1 CA CM n c Hn Hwf HU ms Hc.
  assert (H : Forall (unitary K k0 k1 kadd kmul kconj n) ms) by (eapply compiled_matrices_are_unitary; eassumption).
  eapply Forall_impl; [|exact H]. intros M [[HnM [_ E1]] [_ [_ E2]]]. auto.
Qed.
Print Assumptions every_emitted_matrix_is_unitary.

(* the software simulation of the circuit maps every basis state to that unitary's column *)
Theorem software_simulation_maps_basis_states_to_columns_of_the_unitary :
  forall (K : Type) (k0 k1 : K) (kadd kmul : K -> K -> K),
  (forall a, kadd k0 a = a) -> (forall a, kadd a k0 = a) ->
  (forall a b c, kadd a (kadd b c) = kadd (kadd a b) c) -> (forall a b, kadd a b = kadd b a) ->
  (forall a, kmul k1 a = a) -> (forall a, kmul a k1 = a) ->
  (forall a, kmul k0 a = k0) -> (forall a, kmul a k0 = k0) ->
  (forall a b c, kmul a (kmul b c) = kmul (kmul a b) c) -> (forall a b, kmul a b = kmul b a) ->
  (forall a b c, kmul a (kadd b c) = kadd (kmul a b) (kmul a c)) ->
  forall (n : nat) (c : list (qop K)), 0 < n -> Forall (fun o => op_wf K n o = true) c ->
  exists ms, compile K k0 k1 kmul n c = Some ms /\
    forall i j, length i = n -> length j = n ->
      run_sim K k0 kadd kmul ms (basis K k0 k1 j) i = ent (u_ref K k0 k1 kadd kmul n c) i j.
Proof.
  intros K k0 k1 kadd kmul A1 A2 A3 A4 M1 M2 M3 M4 M5 M6 D n c Hn Hwf.
  eapply simulated_basis_state_is_a_column_of_the_unitary; eassumption.
Qed.
Print Assumptions software_simulation_maps_basis_states_to_columns_of_the_unitary.

(* and the product of unitary matrices is unitary, so is the whole circuit's *)
Theorem product_of_unitaries_is_unitary :
  forall (K : Type) (k0 k1 : K) (kadd kmul : K -> K -> K) (kconj : K -> K),
  (forall a, kadd k0 a = a) -> (forall a, kadd a k0 = a) ->
  (forall a b c, kadd a (kadd b c) = kadd (kadd a b) c) -> (forall a b, kadd a b = kadd b a) ->
  (forall a, kmul k1 a = a) -> (forall a, kmul a k1 = a) ->
  (forall a, kmul k0 a = k0) -> (forall a, kmul a k0 = k0) ->
  (forall a b c, kmul a (kmul b c) = kmul (kmul a b) c) -> (forall a b, kmul a b = kmul b a) ->
  (forall a b c, kmul a (kadd b c) = kadd (kmul a b) (kmul a c)) ->
  kconj k0 = k0 -> kconj k1 = k1 ->
  (forall a b, kconj (kadd a b) = kadd (kconj a) (kconj b)) -> (forall a b, kconj (kmul a b) = kmul (kconj a) (kconj b)) ->
  forall n A B, unitary K k0 k1 kadd kmul kconj n A -> unitary K k0 k1 kadd kmul kconj n B ->
  unitary K k0 k1 kadd kmul kconj n (mmul K k0 kadd kmul A B).
Proof.
  intros K k0 k1 kadd kmul kconj A1 A2 A3 A4 M1 M2 M3 M4 M5 M6 D C0 C1 CA CM n A B.
  eapply unitary_mmul; eassumption.
Qed.
Print Assumptions product_of_unitaries_is_unitary.

(* layering loses nothing and keeps the order *)
Theorem layering_keeps_every_line : forall K (c : list (qop K)),
  concat (circuit_layers K c) = c.
Proof.
  intros K c. unfold circuit_layers.
  assert (H : forall c cur acc, concat (layers K cur acc c) = acc ++ c).
  { induction c0 as [|o r IH]; intros cur acc; simpl.
    - destruct acc; simpl; rewrite ?app_nil_r; reflexivity.
    - destruct (uses K cur o); simpl; rewrite IH; simpl; rewrite <- ?app_assoc; reflexivity. }
  assert (F : forall l : list (list (qop K)), concat (filter (fun l => negb (Nat.eqb (length l) 0)) l) = concat l).
  { induction l as [|x l IH]; simpl; auto. destruct x; simpl; auto. rewrite IH. reflexivity. }
  rewrite F, H. reflexivity.
Qed.
Print Assumptions layering_keeps_every_line.

(* the hypotheses are met: integers, three qubits, a two-qubit gate on the non-adjacent pair (2,0) next to
   a one-qubit gate, and the compiled layer is not the identity *)
Definition zgate2 : mat Z := mkMat 2 (fun i j => match i, j with [a; b], [c; d] => if Bool.eqb a d && Bool.eqb b c then 1%Z else 0%Z | _, _ => 0%Z end).
Definition zgate1 : mat Z := mkMat 1 (fun i j => match i, j with [a], [b] => if Bool.eqb a b then 0%Z else 1%Z | _, _ => 0%Z end).
Example hypotheses_are_satisfiable :
  let ops := [mkOp [2; 0] zgate2; mkOp [1] zgate1] in
  Forall (fun o => op_wf Z 3 o = true) ops /\ NoDup (touched Z ops) /\
  match layer_matrix Z 0%Z 1%Z Z.mul 3 ops with
  | Ok M => ent M [true; false; false] [false; true; true] = 1%Z
  | Panic _ => False end.
Proof. simpl. split; [repeat constructor|]. split; [|reflexivity]. repeat constructor; simpl; intuition discriminate. Qed.

(* the code before the repair: four qubits, cx q0,q3 and cx q2,q1 in one layer — the emitted matrix is not
   the simultaneous application (exact arithmetic) *)
Example layer_before_the_repair_refuted :
  let ops := map to_op [(GCX, [0; 3]); (GCX, [2; 1])] in
  forallb (op_wf c8 4) ops = true /\
  match layer_matrix_old c8 c8_0 c8_1 c8_mul 4 ops with
  | Ok M => mat_eqb 4 M (par_ref c8 c8_0 c8_1 c8_mul 4 ops) = false
  | Panic _ => True end.
Proof. vm_compute. auto. Qed.

(* the same over the integers for a circuit of two layers (the third line reuses qubit 2) *)
Example a_two_layer_circuit :
  let c := [mkOp [2; 0] zgate2; mkOp [1] zgate1; mkOp [2] zgate1] in
  Forall (fun o => op_wf Z 3 o = true) c /\ length (circuit_layers Z c) = 2 /\
  match compile Z 0%Z 1%Z Z.mul 3 c with
  | Some ms => ent (prod_left Z 0%Z 1%Z Z.add Z.mul 3 ms) [false; true; true] [false; false; false] = 1%Z /\
               ent (u_ref Z 0%Z 1%Z Z.add Z.mul 3 c) [false; true; true] [false; false; false] = 1%Z
  | None => False end.
Proof. split; [repeat constructor|]. vm_compute. auto. Qed.

(* the unitarity hypotheses are met: over the integers (conjugation = identity) the two gates above are
   orthogonal, the three-line circuit compiles, and the simulated basis state |000> ends in |011> *)
Fact zgates_unitary :
  unitary Z 0%Z 1%Z Z.add Z.mul (fun x => x) 2 zgate2 /\ unitary Z 0%Z 1%Z Z.add Z.mul (fun x => x) 1 zgate1.
Proof.
  split; (split; (split; [reflexivity|]; split; [reflexivity|]; intros i j Hi Hj;
    repeat (destruct i as [|[] i]; try discriminate Hi); repeat (destruct j as [|[] j]; try discriminate Hj); reflexivity)).
Qed.
Example a_simulated_basis_state :
  let c := [mkOp [2; 0] zgate2; mkOp [1] zgate1; mkOp [2] zgate1] in
  match compile Z 0%Z 1%Z Z.mul 3 c with
  | Some ms => run_sim Z 0%Z Z.add Z.mul ms (basis Z 0%Z 1%Z [false; false; false]) [false; true; true] = 1%Z
  | None => False end.
Proof. vm_compute. reflexivity. Qed.
