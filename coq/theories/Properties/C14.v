(* C14 — compiled quantum circuits implement the circuit's unitary (statements follow) *)
From Coq Require Import List Arith Bool.
From BM Require Import Front.Quantum.
Import ListNotations.

Theorem layering_keeps_every_line : forall K (c : list (qop K)),
  concat (circuit_layers K c) = c.
Proof.
  intros K c. unfold circuit_layers.
  assert (H : forall c cur acc, concat (layers K cur acc c) = acc ++ c).
  { induction c0 as [|o r IH]; intros cur acc; simpl.
    - destruct acc; simpl; rewrite ?app_nil_r; reflexivity.
    - destruct (uses K cur o); simpl; rewrite IH; simpl; rewrite <- ?app_assoc; reflexivity. }
  assert (F : forall l : list (list (qop K)), concat (filter (fun l => negb (Nat.eqb (length l) 0)) l) = concat l).
  { induction l as [|x l IH]; simpl; auto. destruct x; simpl; auto. rewrite IH. reflexivity. }
  rewrite F, H. reflexivity.
Qed.
Print Assumptions layering_keeps_every_line.
