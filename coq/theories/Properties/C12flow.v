(* C12 — the jumps emitted for if / else / for / break / continue implement the structured meaning.
   [flatten] (Front/BondgoFlow.v) computes the addresses pkg/bondgo computes (FALSECONDITION, IFEND,
   STARTFOR, ENDFOR, CONTINUEFOR, shifted by the starting point of every enclosing construct) and is
   compared line by line with the emitted assembly on every generated call-free program.  Proved here, for
   every list of constructs (any nesting), every register size, every placement in a program and every
   state: if the big-step meaning [srun] ends (normally, by break or by continue) then the simulator
   model, started at the first address of the flattened code, reaches in finitely many steps the address
   after the code (resp. the enclosing loop's end / continue point) in exactly the state [srun] gives. *)
From Coq Require Import List NArith Bool Arith.
From BM Require Import Isa.Sim Front.BondgoFlow Proofs.BondgoFlowProofs Proofs.BondgoLowerProofs.
Import ListNotations.

Theorem emitted_jumps_implement_the_structured_control_flow :
  forall (rsize : N) (prog : list instr) (fuel : nat) (l : list sasm) (p : pstate) (base brk cont : nat),
  (* the flattened code sits in the program at address base *)
  (forall k i, nth_error (flatten base brk cont l) k = Some i -> nth_error prog (base + k) = Some i) ->
  (* blocks and condition code are jump-free one-step instructions *)
  wfl l = true ->
  deferred p = [] ->
  brk < length prog -> cont < length prog -> base + size l < length prog ->
  forall p' sg, srun rsize fuel l p = (p', sg) -> sg <> GFuel ->
  exists n, iter rsize prog n (with_pc p (N.of_nat base)) =
            with_pc p' (N.of_nat (match sg with GNormal => base + size l | GBreak => brk | GCont => cont | GFuel => 0 end)).
Proof.
  intros rsize prog fuel l p base brk cont He Wl Cp Hb Hc Hend p' sg Hs Hne.
  destruct (flatten_correct rsize prog fuel l p base brk cont He Wl Cp Hb Hc Hend p' sg Hs Hne) as [[n Hn] _].
  exists n. exact Hn.
Qed.
Print Assumptions emitted_jumps_implement_the_structured_control_flow.

(* the code of a list of constructs has the size the address computation assumes *)
Theorem flattened_code_has_the_computed_size : forall l base brk cont, length (flatten base brk cont l) = size l.
Proof. exact flatten_length. Qed.
Print Assumptions flattened_code_has_the_computed_size.

(* the premise about blocks holds for every program the lowering accepts (declarations, assignments, ++/--, IOWrite, if/else on a
   constant, for with init and post, break, continue; any nesting) *)
Theorem every_lowered_program_has_jump_free_blocks : forall nvars l c, lower_main nvars l = Some c -> wfl c = true.
Proof. exact lowered_programs_meet_the_premise. Qed.
Print Assumptions every_lowered_program_has_jump_free_blocks.

(* the hypotheses are met: a loop with an if / else whose branches continue and break, followed by a write;
   the structured meaning ends normally and the machine, run on the flattened code (followed by an idle jump),
   is at the address after the code with the same registers and outputs *)
Definition demo : list sasm :=
  [ABlock [IRset 0 5];
   AFor [IClr 1] None
        [AIf [IRset 2 1] 2 [ABlock [IInc 0]] None;
         AIf [ICpy 3 1] 3 [ABreak] (Some [AContinue]);
         ABlock [IRset 0 77]]
        [IInc 1];
   ABlock [IR2o 0 0]].
Definition demo_prog : list instr := flatten 0 0 0 demo ++ [J (size demo)].
Definition demo_start : pstate := mkP 0 (repeat 0%N 4) [] [] [] [0%N] [false] [false] [] [false; false; false].
Example demo_meets_the_hypotheses :
  wfl demo = true /\ Nat.ltb (size demo) (length demo_prog) = true /\
  snd (srun 8 20 demo demo_start) = GNormal /\
  outputs (fst (srun 8 20 demo demo_start)) = [7%N] /\
  iter 8 demo_prog 17 demo_start = with_pc (fst (srun 8 20 demo demo_start)) (N.of_nat (size demo)).
Proof. vm_compute. repeat split; reflexivity. Qed.
