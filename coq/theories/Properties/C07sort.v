(* C07, continued (ssreflect style): output that is sorted before it is emitted *)
From mathcomp Require Import all_ssreflect.
From BM Require Import Front.SortedEmit.

(* neuralbond.WriteBasm, remaining nodes (after fix 747ca5a): one cpdef line per node name, names
   sorted first — the text is the same for every iteration order of the ProcessedNodes map *)
Theorem sorted_emission_is_order_free : forall (T : eqType) (L : Type) (leT : rel T) (line : T -> L),
  total leT -> transitive leT -> antisymmetric leT ->
  forall o1 o2 : seq T, perm_eq o1 o2 -> emit_sorted leT line o1 = emit_sorted leT line o2.
Proof. move=> T L leT line tot tr anti o1 o2; exact: emit_sorted_order_free. Qed.
Print Assumptions sorted_emission_is_order_free.

(* the code before the repair is refuted by two node names *)
Theorem unsorted_emission_refuted :
  perm_eq [:: 1; 2] [:: 2; 1] /\ emit_unsorted id [:: 1; 2] <> emit_unsorted id [:: 2; 1].
Proof. exact: emit_unsorted_depends_on_order. Qed.
Print Assumptions unsorted_emission_refuted.
