(* C12 — compiled Go programs do what the source does; compilation always terminates.
   Part 1: the emitted code implements the source (register-variable subset: declarations,
   assignment, literals, variables, + and *, bondgo.IOWrite).  Part 2: the compiler's worker
   protocol terminates under every interleaving and its result does not depend on it. *)
From Coq Require Import List Arith Bool.
From Coq Require Import NArith.
From BM Require Import Isa.Sim Front.Bondgo Proofs.BondgoProofs Front.BondgoProto Proofs.BondgoProtoProofs.
Import ListNotations.

(* for every well-scoped program of the subset, every register size, and every machine with at
   least the registers the compiler asks for: the sequence of (output, value) writes of the emitted
   code under the simulator model equals the sequence under Go semantics with wrap-around *)
Theorem compiled_code_does_what_the_source_does :
  forall (rsize : N) (prog : list stmt) (nregs nouts : nat),
  prog_ok 0 prog = true ->
  max_reg (code (compile prog)) <= nregs ->
  snd (run_code rsize nregs nouts (code (compile prog))) = snd (go_eval rsize prog).
Proof. exact compile_correct. Qed.
Print Assumptions compiled_code_does_what_the_source_does.

(* the hypotheses are met by a program that exercises every construct, and its outputs are not trivial *)
Definition sample : list stmt :=
  [SDecl; SDecl; SAssign 0 (EAdd (ELit 200) (EMul (EVar 0) (ELit 3))); SAssign 1 (EMul (EAdd (EVar 0) (ELit 100)) (EVar 0));
   SWrite 1 (EAdd (EVar 0) (EVar 1)); SWrite 0 (EVar 1)].
Example sample_meets_hypotheses :
  prog_ok 0 sample = true /\ max_reg (code (compile sample)) = 5 /\ snd (go_eval 8 sample) = [(1, 40%N); (0, 96%N)].
Proof. vm_compute. auto. Qed.

(* with the repaired shutdown order the compiler's worker protocol never deadlocks ... *)
Theorem compiler_never_blocks : forall prog s,
  reach (init prog order_fixed) s -> final s = false -> succs s <> [].
Proof. exact progress_fixed. Qed.
Print Assumptions compiler_never_blocks.

(* ... every rendezvous makes progress towards the end (so every maximal execution is finite) ... *)
Theorem compiler_terminates : forall prog s t,
  reach (init prog order_fixed) s -> In t (succs s) -> measure t < measure s.
Proof. intros prog s t R. apply (measure_decreases (total prog)). apply pinv_reach; auto. Qed.
Print Assumptions compiler_terminates.

(* ... and the requirements it ends with do not depend on the interleaving *)
Theorem requirements_deterministic : forall prog s,
  reach (init prog order_fixed) s -> final s = true -> reqs s = total prog.
Proof. exact final_requirements. Qed.
Print Assumptions requirements_deterministic.

(* the order before the fix: main stops the monitor while the allocator still has a notification
   to deliver; allocator and main block forever *)
Definition pick (k : nat) (s : pstate) : pstate := nth k (succs s) s.
Definition o0 := init [VReq (Some 1)] order_old.
Definition o1 := Eval vm_compute in pick 0 o0.
Definition o2 := Eval vm_compute in pick 0 o1.
Definition o3 := Eval vm_compute in pick 1 o2.
Definition o4 := Eval vm_compute in pick 0 o3.
Example compiler_terminates_refuted_old_order : reach o0 o4 /\ succs o4 = [] /\ final o4 = false.
Proof.
  split; [|split; reflexivity].
  apply reach_step with (s := o3); [|vm_compute; auto].
  apply reach_step with (s := o2); [|vm_compute; auto].
  apply reach_step with (s := o1); [|vm_compute; auto].
  apply reach_step with (s := o0); [|vm_compute; auto].
  apply reach_refl.
Qed.
