(* C18 — every generated HDL file set is self-consistent Verilog.  The emitted files are parsed and the design is
   linted by Vlog/Lint.v evaluated in Coq; the verdict per run is translation validation.  Proved here: what a
   clean report of the linter guarantees (its soundness with respect to the structural rules it stands for),
   so that "the linter reported nothing" has a stated meaning. *)
From Coq Require Import List NArith PArith Bool Arith.
From BM Require Import Vlog.Syntax Vlog.Lint Proofs.LintProofs.
Import ListNotations.

(* the linter's verdict on a set is the union of its modules' *)
Theorem lint_app : forall D1 D2 ext, lint (D1 ++ D2) ext = flat_map (lint_module (D1 ++ D2) ext) D1 ++ flat_map (lint_module (D1 ++ D2) ext) D2.
Proof. intros. unfold lint. apply flat_map_app. Qed.
Print Assumptions lint_app.

Theorem clean_report_ports_declared : forall D ext, lint D ext = [] ->
  forall m p, In m D -> In p (m_ports m) ->
  existsb (fun d => Pos.eqb (fst d) p && is_portk (snd d)) (items_decls 50 (m_items m)) = true.
Proof. intros D ext H m p. exact (ports_are_declared D ext H m p). Qed.
Print Assumptions clean_report_ports_declared.

Theorem clean_report_instances_match_their_modules : forall D ext, lint D ext = [] ->
  forall m mn inst c x, In m D -> In (IInst mn inst c x) (m_items m) ->
  match find_module D mn with
  | Some md => match c with
               | CPos l => length l = length (m_ports md)
               | CNamed l => forall p, In p l -> mem (fst p) (m_ports md) = true
               end
  | None => mem mn ext = true
  end.
Proof. intros D ext H m mn inst c x. exact (instances_match_their_modules D ext H m mn inst c x). Qed.
Print Assumptions clean_report_instances_match_their_modules.

Theorem clean_report_continuous_assignments : forall D ext, lint D ext = [] ->
  forall m l r x, In m D -> In (IAssign l r) (m_items m) ->
  (In x (lhs_reads l ++ expr_ids r) -> declared (items_decls 50 (m_items m)) x = true) /\
  (In x (lhs_roots l) -> is_var (items_decls 50 (m_items m)) x = false).
Proof. intros D ext H m l r x. exact (continuous_assignments_are_well_formed D ext H m l r x). Qed.
Print Assumptions clean_report_continuous_assignments.

Theorem clean_report_no_duplicate_declarations : forall D ext, lint D ext = [] -> forall m, In m D -> duplicate_decls m = [].
Proof. intros D ext H m. exact (no_name_is_declared_twice D ext H m). Qed.
Print Assumptions clean_report_no_duplicate_declarations.

(* registers only procedurally: what an always block assigns is declared as a variable, and everything it
   reads, writes or uses as a clock is declared *)
Theorem clean_report_always_blocks : forall D ext, lint D ext = [] ->
  forall m sn body x, In m D -> In (IAlways sn body) (m_items m) ->
  (In x (stmt_reads body ++ stmt_writes body) -> declared (items_decls 50 (m_items m)) x = true) /\
  (In x (stmt_writes body) -> is_var (items_decls 50 (m_items m)) x = true).
Proof. intros D ext H m sn body x. exact (always_blocks_are_well_formed D ext H m sn body x). Qed.
Print Assumptions clean_report_always_blocks.

Theorem clean_report_clocks_declared : forall D ext, lint D ext = [] ->
  forall m l body x, In m D -> In (IAlways (SEdges l) body) (m_items m) ->
  In x (flat_map (fun p => expr_ids (snd p)) l) -> declared (items_decls 50 (m_items m)) x = true.
Proof. intros D ext H m l body x. exact (clocks_are_declared D ext H m l body x). Qed.
Print Assumptions clean_report_clocks_declared.

(* no register is assigned from more than one process: the write sets of any two always blocks of a module
   (those inside generate regions included) are disjoint *)
Theorem clean_report_one_process_per_register : forall D ext, lint D ext = [] ->
  forall m pre b1 mid b2 post x, In m D ->
  always_writes 50 (m_items m) = pre ++ b1 :: mid ++ b2 :: post -> In x b1 -> In x b2 -> False.
Proof. intros D ext H m pre b1 mid b2 post x. exact (no_variable_is_assigned_from_two_always_blocks D ext H m pre b1 mid b2 post x). Qed.
Print Assumptions clean_report_one_process_per_register.
