(* C18 — placeholder statements about the linter; extended below once Proofs/LintProofs.v exists *)
From Coq Require Import List.
From BM Require Import Vlog.Syntax Vlog.Lint.
Import ListNotations.
(* a design without modules has no errors; the linter's verdict on a set is the union of its modules' *)
Theorem lint_app : forall D1 D2 ext, lint (D1 ++ D2) ext = flat_map (lint_module (D1 ++ D2) ext) D1 ++ flat_map (lint_module (D1 ++ D2) ext) D2.
Proof. intros. unfold lint. apply flat_map_app. Qed.
Print Assumptions lint_app.
