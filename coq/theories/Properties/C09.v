(* C09 — simulation results do not depend on scheduling or on other simulations.
   Statements over Net.Tick (the model of bondmachine.VM.Step, tied to the Go simulator by the
   correspondence check) with the processors' execution order made an explicit parameter. *)
From Coq Require Import List NArith Bool Arith.
From BM Require Import Net.Topo Isa.Sim Net.Tick Front.Sched Proofs.SchedProofs.
Import ListNotations.

(* whatever order the processor workers run in during the compute phase of a tick, the machine
   state after the tick is the same *)
Theorem tick_schedule_independent : forall t cfg order v,
  length cfg = length (v_procs v) -> complete (length (v_procs v)) order ->
  tick_order t cfg order v = tick t cfg v.
Proof. exact tick_schedule_independent_all. Qed.
Print Assumptions tick_schedule_independent.

Theorem any_two_schedules_agree : forall cfg order1 order2 ps,
  complete (length ps) order1 -> complete (length ps) order2 ->
  fold_left (step_one cfg) order1 ps = fold_left (step_one cfg) order2 ps.
Proof. exact order_irrelevant. Qed.
Print Assumptions any_two_schedules_agree.

(* simulations sharing a process do not influence one another: for every interleaving of the
   ticks of two simulations, each one ends in the state it reaches when run alone *)
Theorem simulations_isolated : forall (A B : Type) (f : A -> A) (g : B -> B) sched ab,
  fst (interleave f g sched ab) = iter f (length (filter (fun b => b) sched)) (fst ab) /\
  snd (interleave f g sched ab) = iter g (length (filter negb sched)) (snd ab).
Proof. intros. split; [apply interleave_fst|apply interleave_snd]. Qed.
Print Assumptions simulations_isolated.

(* non-vacuity: three processors, two different complete orders *)
Example ex_orders : complete 3 [2; 0; 1] /\ complete 3 [1; 2; 0].
Proof.
  split; split; try (repeat constructor; simpl; intuition congruence);
    intros j Hj; destruct j as [|[|[|j]]]; simpl; auto; inversion Hj as [|? H1]; inversion H1 as [|? H2]; inversion H2 as [|? H3]; inversion H3.
Qed.

(* ---- the barrier of VM.Step (Front.Barrier): in every interleaving of main and the workers a
   Step runs every processor exactly once before the post-compute data movement may start ---- *)
From BM Require Import Front.Barrier Proofs.BarrierProofs.

Theorem barrier_complete : forall n s, RInv n s ->
  (b_main s <> MIdle -> exists s', bstep s s') /\
  (b_main s = MIdle -> Forall (fun w => w = WDone) (b_ws s) /\ complete n (b_log s)).
Proof.
  intros n s I. split; [apply (round_progress n); auto|].
  intro Hm. destruct (round_end n s I Hm) as (H1 & H2 & H3). split; auto. split; auto.
Qed.
Print Assumptions barrier_complete.

(* hence, whatever the interleaving, the processors' states after the round are those of compute *)
Theorem barrier_result_is_compute : forall n s cfg ps, RInv n s -> b_main s = MIdle -> length ps = n ->
  fold_left (step_one cfg) (b_log s) ps = fold_left (step_one cfg) (seq 0 n) ps.
Proof.
  intros n s cfg ps I Hm Hl. destruct (round_end n s I Hm) as (_ & H2 & H3).
  apply order_irrelevant; rewrite Hl; [split; auto|apply seq_complete].
Qed.
Print Assumptions barrier_result_is_compute.
