(* Net/TickCheck.v — executable comparison of Net.Tick / Isa.Sim with the Go simulator *)
From Coq Require Import List NArith Bool Arith.
From BM Require Import Net.Topo Isa.Sim Net.Tick.
Import ListNotations.
Local Open Scope N_scope.

Fixpoint leqb {A B} (e : A -> B -> bool) (a : list A) (b : list B) : bool :=
  match a, b with [], [] => true | x :: a', y :: b' => e x y && leqb e a' b' | _, _ => false end.

(* observed processor state: pc regs in inv inr out outv outr *)
Definition pobs := (N * list N * list N * list bool * list bool * list N * list bool * list bool)%type.
Definition p_eqb (s : pstate) (o : pobs) : bool :=
  let '(opc, oregs, oin, oinv, oinr, oout, ooutv, ooutr) := o in
  (pc s =? opc) && leqb N.eqb (regs s) oregs && leqb N.eqb (inputs s) oin && leqb Bool.eqb (in_valid s) oinv &&
  leqb Bool.eqb (in_recv s) oinr && leqb N.eqb (outputs s) oout && leqb Bool.eqb (out_valid s) ooutv &&
  leqb Bool.eqb (out_recv s) ooutr.

(* observed VM state after a tick *)
Record vobs := mkVobs {
  o_procs : list pobs;
  o_in : list N; o_inv : list bool; o_inr : list bool; o_out : list N; o_outv : list bool; o_outr : list bool;
  o_iin : list N; o_iinv : list bool; o_iinr : list bool; o_iout : list N; o_ioutv : list bool; o_ioutr : list bool }.

Definition v_eqb (v : vm) (o : vobs) : bool :=
  leqb p_eqb (v_procs v) (o_procs o) &&
  leqb N.eqb (v_in v) (o_in o) && leqb Bool.eqb (v_in_valid v) (o_inv o) && leqb Bool.eqb (v_in_recv v) (o_inr o) &&
  leqb N.eqb (v_out v) (o_out o) && leqb Bool.eqb (v_out_valid v) (o_outv o) && leqb Bool.eqb (v_out_recv v) (o_outr o) &&
  leqb N.eqb (v_iin v) (o_iin o) && leqb Bool.eqb (v_iin_valid v) (o_iinv o) && leqb Bool.eqb (v_iin_recv v) (o_iinr o) &&
  leqb N.eqb (v_iout v) (o_iout o) && leqb Bool.eqb (v_iout_valid v) (o_ioutv o) && leqb Bool.eqb (v_iout_recv v) (o_ioutr o).

(* the caller's writes before a Step: per external input (value, valid), per external output the
   received flag (None = copy the current valid flag, as SinglePipelineSimulate does) *)
Definition env := (list (N * bool) * list (option bool))%type.

Definition apply_env (e : env) (v : vm) : vm :=
  let ins := fst e in
  let vin := map (fun p => match nth_error ins (fst p) with Some x => fst x | None => snd p end) (idx (v_in v)) in
  let vinv := map (fun p => match nth_error ins (fst p) with Some x => snd x | None => snd p end) (idx (v_in_valid v)) in
  let vor := map (fun p => match nth_error (snd e) (fst p) with
                           | Some (Some b) => b
                           | Some None => nthB (v_out_valid v) (fst p)
                           | None => snd p end) (idx (v_out_recv v)) in
  mkVM (v_procs v) vin vinv (v_in_recv v) (v_out v) (v_out_valid v) vor
       (v_iin v) (v_iin_valid v) (v_iin_recv v) (v_iout v) (v_iout_valid v) (v_iout_recv v).

Fixpoint check_run (t : bm) (cfg : list proc) (k : nat) (v : vm) (envs : list env) (obs : list vobs) : option nat :=
  match obs with
  | [] => None
  | o :: obs' =>
      let e := match envs with e :: _ => e | [] => ([], []) end in
      let v' := tick t cfg (apply_env e v) in
      if v_eqb v' o then check_run t cfg (S k) v' (tl envs) obs' else Some k
  end.

Definition check_sim (t : bm) (cfg : list proc) (rbits : list nat) (envs : list env) (obs : list vobs) : option nat :=
  check_run t cfg 0 (init_vm t rbits) envs obs.
