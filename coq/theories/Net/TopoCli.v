(* Net/TopoCli.v + proofs — the list forms of cmd/bondmachine's edit flags: -del-inputs / -del-outputs take a
   list of ids in any order, possibly with repeats and ids that do not exist; the ids that exist are removed,
   highest first, so that every id still means the port it named when the command was given. *)
From Coq Require Import List ZArith Arith Bool Lia.
From BM Require Import Net.Topo Proofs.TopoProofs.
Import ListNotations.

(* the ids of the list that exist, once each, ascending *)
Definition named (ids : list nat) (n : nat) : list nat := filter (fun k => existsb (Nat.eqb k) ids) (List.seq 0 n).

Definition cli_del_outputs (b : bm) (ids : list nat) : bm :=
  fold_left (fun b k => step b (DelOutput (Z.of_nat k))) (rev (named ids (outputs b))) b.
Definition cli_del_inputs (b : bm) (ids : list nat) : bm :=
  fold_left (fun b k => step b (DelInput (Z.of_nat k))) (rev (named ids (inputs b))) b.

Lemma named_ext ids1 ids2 n : (forall k, k < n -> (In k ids1 <-> In k ids2)) -> named ids1 n = named ids2 n.
Proof.
  intros H. unfold named. apply filter_ext_in. intros k Hk. apply List.in_seq in Hk.
  destruct (existsb (Nat.eqb k) ids1) eqn:E1, (existsb (Nat.eqb k) ids2) eqn:E2; auto; exfalso.
  - apply existsb_exists in E1. destruct E1 as [x [Hx Ex]]. apply Nat.eqb_eq in Ex. subst x.
    assert (existsb (Nat.eqb k) ids2 = true) by (apply existsb_exists; exists k; split; [apply H; [lia|exact Hx]|apply Nat.eqb_refl]). congruence.
  - apply existsb_exists in E2. destruct E2 as [x [Hx Ex]]. apply Nat.eqb_eq in Ex. subst x.
    assert (existsb (Nat.eqb k) ids1 = true) by (apply existsb_exists; exists k; split; [apply H; [lia|exact Hx]|apply Nat.eqb_refl]). congruence.
Qed.

(* the order of the list, repeats and ids that do not exist make no difference *)
Theorem del_outputs_list_is_a_set : forall b ids1 ids2,
  (forall k, k < outputs b -> (In k ids1 <-> In k ids2)) -> cli_del_outputs b ids1 = cli_del_outputs b ids2.
Proof. intros b ids1 ids2 H. unfold cli_del_outputs. rewrite (named_ext ids1 ids2 (outputs b) H). reflexivity. Qed.

Theorem del_inputs_list_is_a_set : forall b ids1 ids2,
  (forall k, k < inputs b -> (In k ids1 <-> In k ids2)) -> cli_del_inputs b ids1 = cli_del_inputs b ids2.
Proof. intros b ids1 ids2 H. unfold cli_del_inputs. rewrite (named_ext ids1 ids2 (inputs b) H). reflexivity. Qed.

Lemma steps_wf : forall ops b, wf b -> wf (fold_left step ops b).
Proof. induction ops as [|o ops IH]; intros b W; simpl; auto. apply IH. apply wf_step. exact W. Qed.

Lemma fold_map_step {A} (f : A -> op) : forall l b, fold_left (fun b k => step b (f k)) l b = fold_left step (map f l) b.
Proof. induction l as [|x l IH]; intros b; simpl; auto. Qed.

Theorem list_deletions_keep_the_machine_well_formed : forall b ids, wf b -> wf (cli_del_outputs b ids) /\ wf (cli_del_inputs b ids).
Proof.
  intros b ids W. unfold cli_del_outputs, cli_del_inputs. split.
  - rewrite (fold_map_step (fun k => DelOutput (Z.of_nat k))). apply steps_wf. exact W.
  - rewrite (fold_map_step (fun k => DelInput (Z.of_nat k))). apply steps_wf. exact W.
Qed.
