(* Net/HandshakeCheck.v — executable comparison of the handshake automata with observed runs *)
From Coq Require Import List NArith Bool Arith.
From BM Require Import Net.Handshake.
Import ListNotations.

Fixpoint leqb {A B} (e : A -> B -> bool) (a : list A) (b : list B) : bool :=
  match a, b with [], [] => true | x :: a', y :: b' => e x y && leqb e a' b' | _, _ => false end.

(* observation after a tick: producer valid, data; per consumer received flag and captured stream *)
Definition sobs := (bool * N * list (bool * list N))%type.

Definition s_matches (s : ssys) (o : sobs) : bool :=
  let '(v, d, cs) := o in
  Bool.eqb (sp_valid (s_prod s)) v && (if v then N.eqb (sp_data (s_prod s)) d else true) &&
  leqb (fun c oc => Bool.eqb (sc_recv c) (fst oc) && leqb N.eqb (sc_got c) (snd oc)) (s_cons s) cs.

(* returns (first tick where the automaton and the observation differ, first tick where the schedule
   leaves the hypotheses, final spec verdict) *)
Fixpoint s_follow (k : nat) (s : ssys) (sched : list (pact * list cact)) (obs : list sobs)
         (mism notok : option nat) : option nat * option nat * bool :=
  match sched, obs with
  | (pa, cas) :: r, o :: obs' =>
      let notok' := match notok with Some _ => notok | None => if s_ok s pa cas then None else Some k end in
      let s' := s_step s pa cas in
      let mism' := match mism with Some _ => mism | None => if s_matches s' o then None else Some k end in
      s_follow (S k) s' r obs' mism' notok'
  | _, _ => (mism, notok, spec_ok (s_offered s) (map sc_got (s_cons s)))
  end.

Definition hobs := (bool * bool * N * list (bool * list N))%type.   (* waitsm, oN_val, _auxoN, consumers *)
Definition h_matches (s : hsys) (o : hobs) : bool :=
  let '(w, v, d, cs) := o in
  Bool.eqb (hp_wait (h_prod s)) w && Bool.eqb (hp_val (h_prod s)) v && (if v then N.eqb (hp_aux (h_prod s)) d else true) &&
  leqb (fun c oc => Bool.eqb (hc_recv c) (fst oc) && leqb N.eqb (hc_got c) (snd oc)) (h_cons s) cs.

Fixpoint h_follow (k : nat) (s : hsys) (sched : list (pact * list cact)) (obs : list hobs)
         (mism notok : option nat) : option nat * option nat * bool :=
  match sched, obs with
  | (pa, cas) :: r, o :: obs' =>
      let notok' := match notok with Some _ => notok | None => if h_ok s pa cas then None else Some k end in
      let s' := h_step s pa cas in
      let mism' := match mism with Some _ => mism | None => if h_matches s' o then None else Some k end in
      h_follow (S k) s' r obs' mism' notok'
  | _, _ => (mism, notok, spec_ok (h_offered s) (map hc_got (h_cons s)))
  end.
