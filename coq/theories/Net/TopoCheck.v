(* Net/TopoCheck.v — executable comparison used by the C10 correspondence check:
   model trace vs. observed implementation states, and the theorem's conclusions
   (well-formedness, refinement of the name-level spec) as booleans on the observed states. *)
From Coq Require Import List ZArith Bool Arith.
From BM Require Import Net.Topo.
Import ListNotations.

Fixpoint list_eqb {A} (eqb : A -> A -> bool) (a b : list A) : bool :=
  match a, b with
  | [], [] => true
  | x :: a', y :: b' => eqb x y && list_eqb eqb a' b'
  | _, _ => false
  end.

Definition optnat_eqb (a b : option nat) :=
  match a, b with Some x, Some y => Nat.eqb x y | None, None => true | _, _ => false end.
Definition natpair_eqb (a b : nat * nat) := Nat.eqb (fst a) (fst b) && Nat.eqb (snd a) (snd b).
Definition outcome_eqb (a b : outcome) :=
  match a, b with Done, Done | Err, Err | Panic, Panic => true | _, _ => false end.

Definition bm_eqb (a b : bm) : bool :=
  Nat.eqb (inputs a) (inputs b) && Nat.eqb (outputs a) (outputs b) &&
  list_eqb natpair_eqb (doms a) (doms b) && list_eqb Nat.eqb (procs a) (procs b) &&
  list_eqb ep_eqb (iin a) (iin b) && list_eqb ep_eqb (iout a) (iout b) &&
  list_eqb optnat_eqb (links a) (links b).

Definition spec_nonbond_eqb (s t : spec) : bool :=
  Nat.eqb (s_inputs s) (s_inputs t) && Nat.eqb (s_outputs s) (s_outputs t) &&
  list_eqb natpair_eqb (s_doms s) (s_doms t) && list_eqb Nat.eqb (s_procs s) (s_procs t).

(* failure codes: 1 model/implementation mismatch, 2 observed state not well formed,
   3 observed step does not refine the name-level specification *)
Fixpoint check_steps (k : nat) (model prev : bm) (ops : list op) (obs : list (outcome * bm))
  : list (nat * nat) :=
  match ops, obs with
  | o :: ops', (oc, b) :: obs' =>
      let r := apply model o in
      let e1 := if bm_eqb (fst r) b && outcome_eqb (snd r) oc then [] else [(k, 1)] in
      let e2 := if wf_bmb b then [] else [(k, 2)] in
      let sp := spec_apply (abs prev) (abs_op prev o) in
      let e3 := if spec_nonbond_eqb sp (abs b) && same_bonds (s_bonds sp) (bond_set b) then [] else [(k, 3)] in
      e1 ++ e2 ++ e3 ++ check_steps (S k) (fst r) b ops' obs'
  | _, _ => []
  end.

Definition check_case (c : list (nat * nat) * list op * list (outcome * bm)) : list (nat * nat) :=
  let '(d, ops, obs) := c in
  if Nat.eqb (length ops) (length obs) then check_steps 0 (empty_bm d) (empty_bm d) ops obs
  else [(0, 9)].
