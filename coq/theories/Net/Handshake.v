(* Net/Handshake.v — one bond with k consumers, in both implementations.
   SimSys: the protocol as the Go simulator runs it (R2owa.Simulate, I2rw.Simulate, the
           waitRecvI2rw deferred instruction, and the data movement of bondmachine.VM.Step, which
           makes every processor see the other side's flags as they were after the previous tick).
   HdlSys: the protocol as the generated Verilog runs it (waitsm, oN_val with its default arm,
           iN_recv with its default arm, _auxoN).
   What the processors execute is a parameter (the schedule): at every tick each side either
   executes its IO instruction on this bond or "something else"; this quantifies over programs,
   relative speeds and delays. *)
From Coq Require Import List NArith Bool Arith.
Import ListNotations.

Inductive pact := PIo (v : N) | PIdle.     (* producer executes r2owa with register value v / anything else *)
Inductive cact := CIo | CIdle.             (* consumer executes i2rw on the bonded input / anything else *)

(* ------------------------------------------------------------------ simulator *)
Record spst := mkSP { sp_valid : bool; sp_data : N; sp_sent : list N }.
Record scst := mkSC { sc_recv : bool; sc_def : bool; sc_got : list N }.
Record ssys := mkSS { s_prod : spst; s_cons : list scst }.

Definition s_init (k : nat) : ssys := mkSS (mkSP false 0%N []) (repeat (mkSC false false []) k).

Definition all_recv_s (cs : list scst) : bool :=
  match cs with [] => false | _ => forallb sc_recv cs end.

Definition sc_step (V : bool) (Dt : N) (c : scst) (a : cact) : scst :=
  (* ExecuteDeferredInstructions: waitRecvI2rw *)
  let c1 := if sc_def c && negb V then mkSC false false (sc_got c) else c in
  match a with
  | CIo => if V then mkSC true true (sc_got c1 ++ [Dt]) else mkSC false (sc_def c1) (sc_got c1)
  | CIdle => c1
  end.

Definition sp_step (Rall : bool) (p : spst) (a : pact) : spst :=
  match a with
  | PIo v => if Rall then mkSP false v (sp_sent p ++ [v]) else mkSP true v (sp_sent p)
  | PIdle => p
  end.

Definition s_step (s : ssys) (pa : pact) (cas : list cact) : ssys :=
  let V := sp_valid (s_prod s) in
  let Dt := sp_data (s_prod s) in
  let Rall := all_recv_s (s_cons s) in
  mkSS (sp_step Rall (s_prod s) pa)
       (map (fun ca => sc_step V Dt (fst ca) (snd ca)) (combine (s_cons s) cas)).

(* the schedule hypotheses, evaluated on the state a step starts from *)
Definition s_ok (s : ssys) (pa : pact) (cas : list cact) : bool :=
  Nat.eqb (length cas) (length (s_cons s)) &&
  (* a consumer does not execute i2rw while its own previous capture is still pending and valid is still up *)
  forallb (fun ca => match snd ca with CIo => negb (sc_def (fst ca) && sp_valid (s_prod s)) | CIdle => true end)
          (combine (s_cons s) cas) &&
  match pa with
  | PIo v => if sp_valid (s_prod s) then N.eqb v (sp_data (s_prod s))      (* blocked on the same value *)
             else negb (all_recv_s (s_cons s))                            (* no new offer while received is still up *)
  | PIdle => true
  end.

Fixpoint s_run (s : ssys) (sched : list (pact * list cact)) : ssys :=
  match sched with [] => s | (pa, cas) :: r => s_run (s_step s pa cas) r end.
Fixpoint s_ok_run (s : ssys) (sched : list (pact * list cact)) : bool :=
  match sched with [] => true | (pa, cas) :: r => s_ok s pa cas && s_ok_run (s_step s pa cas) r end.

(* what has been put on the wire so far *)
Definition s_offered (s : ssys) : list N :=
  sp_sent (s_prod s) ++ (if sp_valid (s_prod s) then [sp_data (s_prod s)] else []).

(* ------------------------------------------------------------------ generated hardware *)
Record hpst := mkHP { hp_wait : bool; hp_val : bool; hp_aux : N; hp_sent : list N }.
Record hcst := mkHC { hc_recv : bool; hc_got : list N }.
Record hsys := mkHS { h_prod : hpst; h_cons : list hcst }.

Definition h_init (k : nat) : hsys := mkHS (mkHP false false 0%N []) (repeat (mkHC false []) k).

Definition all_recv_h (cs : list hcst) : bool :=
  match cs with [] => false | _ => forallb hc_recv cs end.

Definition hc_step (V : bool) (Dt : N) (c : hcst) (a : cact) : hcst :=
  match a with
  | CIo => if V then mkHC true (hc_got c ++ [Dt]) else mkHC false (hc_got c)
  | CIdle => if V then c else mkHC false (hc_got c)
  end.

Definition hp_step (Rall : bool) (p : hpst) (a : pact) : hpst :=
  match a with
  | PIo v =>
      if hp_wait p then
        (* waitsm == 1: _auxoN <= reg; oN_val <= 1; on received: advance *)
        if Rall then mkHP false true v (hp_sent p ++ [hp_aux p]) else mkHP true true v (hp_sent p)
      else
        if Rall then p else mkHP true (hp_val p) (hp_aux p) (hp_sent p)
  | PIdle => if Rall then mkHP (hp_wait p) false (hp_aux p) (hp_sent p) else p
  end.

Definition h_step (s : hsys) (pa : pact) (cas : list cact) : hsys :=
  let V := hp_val (h_prod s) in
  let Dt := hp_aux (h_prod s) in
  let Rall := all_recv_h (h_cons s) in
  mkHS (hp_step Rall (h_prod s) pa)
       (map (fun ca => hc_step V Dt (fst ca) (snd ca)) (combine (h_cons s) cas)).

Definition h_ok (s : hsys) (pa : pact) (cas : list cact) : bool :=
  Nat.eqb (length cas) (length (h_cons s)) &&
  forallb (fun ca => match snd ca with CIo => negb (hc_recv (fst ca) && hp_val (h_prod s)) | CIdle => true end)
          (combine (h_cons s) cas) &&
  (* a blocked producer stays at its r2owa with the same register value *)
  (if hp_wait (h_prod s) then
     match pa with PIo v => if hp_val (h_prod s) then N.eqb v (hp_aux (h_prod s)) else true | PIdle => false end
   else true).

Fixpoint h_run (s : hsys) (sched : list (pact * list cact)) : hsys :=
  match sched with [] => s | (pa, cas) :: r => h_run (h_step s pa cas) r end.
Fixpoint h_ok_run (s : hsys) (sched : list (pact * list cact)) : bool :=
  match sched with [] => true | (pa, cas) :: r => h_ok s pa cas && h_ok_run (h_step s pa cas) r end.

Definition h_offered (s : hsys) : list N :=
  hp_sent (h_prod s) ++ (if hp_wait (h_prod s) && hp_val (h_prod s) then [hp_aux (h_prod s)] else []).

(* ------------------------------------------------------------------ the specification *)
Fixpoint prefixb (a b : list N) : bool :=
  match a, b with
  | [], _ => true
  | x :: a', y :: b' => N.eqb x y && prefixb a' b'
  | _ :: _, [] => false
  end.

(* every consumer's stream is a prefix of what was offered and at most one value behind *)
Definition spec_ok (offered : list N) (gots : list (list N)) : bool :=
  forallb (fun g => prefixb g offered && Nat.leb (length offered - length g) 1) gots.
