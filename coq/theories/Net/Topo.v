(* Net/Topo.v — executable model of the BondMachine topology and of the edit
   functions of pkg/bondmachine/bondmachine.go (Add_input, Del_input, Add_output,
   Del_output, Add_processor, Add_bond, Del_bond, Attach_benchmark_core[V2]).
   Definitions only: proofs live in Proofs/TopoProofs.v so that the model still
   evaluates when a proof is broken. *)
From Coq Require Import List ZArith Bool Arith.
Import ListNotations.

(* An endpoint.  Go: Bond{Map_to,Res_id,Ext_id}; Bond.String() is injective on
   these four shapes ("iK" "oK" "pPiK" "pPoK"), so name equality = constructor equality. *)
Inductive ep : Type :=
| BI (r : nat)            (* Map_to 0: external input  (lives in Internal_outputs) *)
| BO (r : nat)            (* Map_to 1: external output (lives in Internal_inputs)  *)
| PI (p i : nat)          (* Map_to 2: processor input  *)
| PO (p o : nat).         (* Map_to 3: processor output *)

Definition ep_eqb (a b : ep) : bool :=
  match a, b with
  | BI x, BI y => Nat.eqb x y
  | BO x, BO y => Nat.eqb x y
  | PI p i, PI q j => Nat.eqb p q && Nat.eqb i j
  | PO p i, PO q j => Nat.eqb p q && Nat.eqb i j
  | _, _ => false
  end.

(* endpoint *names* as the API receives them: a well-formed name or a string that
   is the name of nothing *)
Inductive epname := Name (e : ep) | Junk.

Definition name_is (n : epname) (e : ep) : bool :=
  match n with Name e' => ep_eqb e e' | Junk => false end.

Record bm : Type := mkBM {
  inputs  : nat;
  outputs : nat;
  doms    : list (nat * nat);          (* (N, M) of each domain *)
  procs   : list nat;                  (* domain id of each processor *)
  iin     : list ep;                   (* Internal_inputs  *)
  iout    : list ep;                   (* Internal_outputs *)
  links   : list (option nat)          (* Links; None = -1 *)
}.

Definition empty_bm (d : list (nat * nat)) : bm := mkBM 0 0 d [] [] [] [].

Inductive op : Type :=
| AddInput
| DelInput (i : Z)
| AddOutput
| DelOutput (o : Z)
| AddProc (d : Z)
| AddBond (a b : epname)
| DelBond (k : Z)
| AttachBench (a b : epname).

Inductive outcome := Done | Err | Panic.

(* ---------- helpers ---------- *)

Fixpoint find_index {A} (f : A -> bool) (l : list A) : option nat :=
  match l with
  | [] => None
  | x :: t => if f x then Some 0 else option_map S (find_index f t)
  end.

Fixpoint set_nth {A} (n : nat) (v : A) (l : list A) : list A :=
  match l, n with
  | [], _ => []
  | _ :: t, 0 => v :: t
  | x :: t, S n' => x :: set_nth n' v t
  end.

Definition is_BI (r : nat) (e : ep) : bool := match e with BI x => Nat.eqb x r | _ => false end.
Definition is_BO (r : nat) (e : ep) : bool := match e with BO x => Nat.eqb x r | _ => false end.

Definition ren_BI (r : nat) (e : ep) : ep :=
  match e with BI x => if Nat.ltb r x then BI (x - 1) else e | _ => e end.
Definition ren_BO (r : nat) (e : ep) : ep :=
  match e with BO x => if Nat.ltb r x then BO (x - 1) else e | _ => e end.

(* ---------- the edits ---------- *)

Definition add_input (b : bm) : bm :=
  mkBM (S (inputs b)) (outputs b) (doms b) (procs b) (iin b) (iout b ++ [BI (inputs b)]) (links b).

(* Del_input, 0 <= r < inputs.  Steps numbered as in the Go source. *)
Definition del_input (b : bm) (r : nat) : bm :=
  (* 1: drop every link whose source is the input *)
  let l1 := map (fun l => match l with
                          | Some j => match nth_error (iout b) j with
                                      | Some e => if is_BI r e then None else Some j
                                      | None => Some j
                                      end
                          | None => None end) (links b) in
  (* 2,3: remove the internal output, renumber the externals above it *)
  let keep := find_index (is_BI r) (iout b) in
  let io' := map (ren_BI r) (filter (fun e => negb (is_BI r e)) (iout b)) in
  (* 4: shift links above the removed position *)
  let l2 := match keep with
            | Some kp => map (fun l => match l with
                                       | Some j => if Nat.ltb kp j then Some (j - 1) else Some j
                                       | None => None end) l1
            | None => l1 end in
  mkBM (inputs b - 1) (outputs b) (doms b) (procs b) (iin b) io' l2.

Definition add_output (b : bm) : bm :=
  mkBM (inputs b) (S (outputs b)) (doms b) (procs b) (iin b ++ [BO (outputs b)]) (iout b) (links b ++ [None]).

Fixpoint del_output_walk (r : nat) (ii : list ep) (ll : list (option nat)) : list ep * list (option nat) :=
  match ii, ll with
  | e :: ii', l :: ll' =>
      let '(a, c) := del_output_walk r ii' ll' in
      if is_BO r e then (a, c) else (ren_BO r e :: a, l :: c)
  | _, _ => ([], [])
  end.

Definition del_output (b : bm) (r : nat) : bm :=
  let '(ii', ll') := del_output_walk r (iin b) (links b) in
  mkBM (inputs b) (outputs b - 1) (doms b) (procs b) ii' (iout b) ll'.

Definition add_proc (b : bm) (d : nat) : bm :=
  let '(n, m) := nth d (doms b) (0, 0) in
  let p := length (procs b) in
  mkBM (inputs b) (outputs b) (doms b) (procs b ++ [d])
       (iin b ++ map (PI p) (seq 0 n))
       (iout b ++ map (PO p) (seq 0 m))
       (links b ++ repeat None n).

(* Add_bond(endpoints): the first internal input whose name is endpoints[0] or
   endpoints[1] decides; the other endpoint is looked up among the internal outputs. *)
Definition add_bond (b : bm) (n0 n1 : epname) : bm :=
  match find_index (fun e => name_is n0 e || name_is n1 e) (iin b) with
  | None => b
  | Some i =>
      let e := nth i (iin b) (BO 0) in
      let other := if name_is n0 e then n1 else n0 in
      match find_index (name_is other) (iout b) with
      | None => b
      | Some j => mkBM (inputs b) (outputs b) (doms b) (procs b) (iin b) (iout b)
                       (set_nth i (Some j) (links b))
      end
  end.

Definition del_bond (b : bm) (k : nat) : bm :=
  mkBM (inputs b) (outputs b) (doms b) (procs b) (iin b) (iout b) (set_nth k None (links b)).

Definition is_out_name (b : bm) (n : epname) : bool := existsb (name_is n) (iout b).

(* Attach_benchmark_core / AttachBenchmarkCoreV2: same topology effect (a new
   domain with N=2, M=1; processor; two bonds in; new external output; bond out) *)
Definition attach_bench (b : bm) (n0 n1 : epname) : bm :=
  let b1 := mkBM (inputs b) (outputs b) (doms b ++ [(2, 1)]) (procs b) (iin b) (iout b) (links b) in
  let b2 := add_proc b1 (length (doms b1) - 1) in
  let p := length (procs b2) - 1 in
  let b3 := add_bond b2 (Name (PI p 0)) n0 in
  let b4 := add_bond b3 (Name (PI p 1)) n1 in
  let b5 := add_output b4 in
  add_bond b5 (Name (PO p 0)) (Name (BO (outputs b5 - 1))).

Definition apply (b : bm) (o : op) : bm * outcome :=
  match o with
  | AddInput => (add_input b, Done)
  | DelInput z =>
      if (z <? 0)%Z then (b, Panic)
      else if Nat.ltb (Z.to_nat z) (inputs b) then (del_input b (Z.to_nat z), Done) else (b, Err)
  | AddOutput => (add_output b, Done)
  | DelOutput z =>
      if (z <? 0)%Z then (b, Panic)
      else if Nat.ltb (Z.to_nat z) (outputs b) then (del_output b (Z.to_nat z), Done) else (b, Err)
  | AddProc z =>
      if (z <? 0)%Z then (b, Panic)
      else if Nat.ltb (Z.to_nat z) (length (doms b)) then (add_proc b (Z.to_nat z), Done) else (b, Err)
  | AddBond a c => (add_bond b a c, Done)
  | DelBond z =>
      if (z <? 0)%Z then (b, Panic)
      else if Nat.ltb (Z.to_nat z) (length (links b)) then (del_bond b (Z.to_nat z), Done) else (b, Err)
  | AttachBench a c =>
      if is_out_name b a && is_out_name b c then (attach_bench b a c, Done) else (b, Err)
  end.

Definition step (b : bm) (o : op) : bm := fst (apply b o).
Definition run (d : list (nat * nat)) (ops : list op) : bm := fold_left step ops (empty_bm d).

(* all intermediate states, for the correspondence check *)
Fixpoint trace (b : bm) (ops : list op) : list (bm * outcome) :=
  match ops with
  | [] => []
  | o :: t => let r := apply b o in r :: trace (fst r) t
  end.

(* ---------- well-formedness (boolean, executable; the Prop version is in the proofs) ---------- *)

Fixpoint nodupb (l : list ep) : bool :=
  match l with [] => true | x :: t => negb (existsb (ep_eqb x) t) && nodupb t end.

Definition mem (e : ep) (l : list ep) : bool := existsb (ep_eqb e) l.

Definition ep_ok_in (b : bm) (e : ep) : bool :=
  match e with
  | BO r => Nat.ltb r (outputs b)
  | PI p i => match nth_error (procs b) p with
              | Some d => match nth_error (doms b) d with Some (n, _) => Nat.ltb i n | None => false end
              | None => false end
  | _ => false
  end.

Definition ep_ok_out (b : bm) (e : ep) : bool :=
  match e with
  | BI r => Nat.ltb r (inputs b)
  | PO p i => match nth_error (procs b) p with
              | Some d => match nth_error (doms b) d with Some (_, m) => Nat.ltb i m | None => false end
              | None => false end
  | _ => false
  end.

(* the endpoints a machine must have, in any order *)
Definition expected_in (b : bm) : list ep :=
  map BO (seq 0 (outputs b)) ++
  flat_map (fun pd => map (PI (fst pd)) (seq 0 (fst (nth (snd pd) (doms b) (0,0)))))
           (combine (seq 0 (length (procs b))) (procs b)).
Definition expected_out (b : bm) : list ep :=
  map BI (seq 0 (inputs b)) ++
  flat_map (fun pd => map (PO (fst pd)) (seq 0 (snd (nth (snd pd) (doms b) (0,0)))))
           (combine (seq 0 (length (procs b))) (procs b)).

Definition wf_bmb (b : bm) : bool :=
  Nat.eqb (length (links b)) (length (iin b)) &&
  forallb (fun l => match l with Some j => Nat.ltb j (length (iout b)) | None => true end) (links b) &&
  nodupb (iin b) && nodupb (iout b) &&
  forallb (ep_ok_in b) (iin b) && forallb (ep_ok_out b) (iout b) &&
  forallb (fun e => mem e (iin b)) (expected_in b) &&
  forallb (fun e => mem e (iout b)) (expected_out b) &&
  forallb (fun d => Nat.ltb d (length (doms b))) (procs b).

(* ---------- the abstract value: the set of bonds as (source name, sink name) pairs ---------- *)

Fixpoint bonds_walk (io : list ep) (ii : list ep) (ll : list (option nat)) : list (ep * ep) :=
  match ii, ll with
  | e :: ii', l :: ll' =>
      match l with
      | Some j => match nth_error io j with
                  | Some s => (s, e) :: bonds_walk io ii' ll'
                  | None => bonds_walk io ii' ll'
                  end
      | None => bonds_walk io ii' ll'
      end
  | _, _ => []
  end.

Definition bond_set (b : bm) : list (ep * ep) := bonds_walk (iout b) (iin b) (links b).

(* ---------- the specification: edits acting on names only ---------- *)

Record spec : Type := mkSpec {
  s_inputs : nat; s_outputs : nat; s_doms : list (nat * nat); s_procs : list nat;
  s_bonds : list (ep * ep)             (* read as a set *)
}.

Definition abs (b : bm) : spec := mkSpec (inputs b) (outputs b) (doms b) (procs b) (bond_set b).

Definition s_has_in (s : spec) (e : ep) : bool :=
  match e with
  | BO r => Nat.ltb r (s_outputs s)
  | PI p i => match nth_error (s_procs s) p with
              | Some d => match nth_error (s_doms s) d with Some (n, _) => Nat.ltb i n | None => false end
              | None => false end
  | _ => false end.
Definition s_has_out (s : spec) (e : ep) : bool :=
  match e with
  | BI r => Nat.ltb r (s_inputs s)
  | PO p i => match nth_error (s_procs s) p with
              | Some d => match nth_error (s_doms s) d with Some (_, m) => Nat.ltb i m | None => false end
              | None => false end
  | _ => false end.
Definition n_has_in (s : spec) (n : epname) := match n with Name e => s_has_in s e | Junk => false end.
Definition n_has_out (s : spec) (n : epname) := match n with Name e => s_has_out s e | Junk => false end.

Definition with_bonds (s : spec) (B : list (ep * ep)) : spec :=
  mkSpec (s_inputs s) (s_outputs s) (s_doms s) (s_procs s) B.

(* connect sink e_in to source e_out: a sink has at most one source *)
Definition s_connect (s : spec) (e_out e_in : ep) : spec :=
  with_bonds s ((e_out, e_in) :: filter (fun p => negb (ep_eqb (snd p) e_in)) (s_bonds s)).

Definition s_add_bond (s : spec) (n0 n1 : epname) : spec :=
  match n0, n1 with
  | Name e0, _ =>
      if s_has_in s e0 then
        match n1 with Name e1 => if s_has_out s e1 then s_connect s e1 e0 else s | Junk => s end
      else match n1 with
           | Name e1 => if s_has_in s e1 then (if s_has_out s e0 then s_connect s e0 e1 else s) else s
           | Junk => s end
  | Junk, _ => s
  end.

(* abstract operations: bonds are addressed by the name of their sink *)
Inductive sop : Type :=
| SAddInput | SDelInput (r : nat) | SAddOutput | SDelOutput (r : nat) | SAddProc (d : nat)
| SAddBond (a b : epname) | SDelBondOf (sink : ep) | SAttach (a b : epname) | SNop.

Definition s_add_proc (s : spec) (d : nat) : spec :=
  mkSpec (s_inputs s) (s_outputs s) (s_doms s) (s_procs s ++ [d]) (s_bonds s).

Definition s_add_dom (s : spec) (d : nat * nat) : spec :=
  mkSpec (s_inputs s) (s_outputs s) (s_doms s ++ [d]) (s_procs s) (s_bonds s).
Definition s_add_output (s : spec) : spec :=
  mkSpec (s_inputs s) (S (s_outputs s)) (s_doms s) (s_procs s) (s_bonds s).

Definition spec_apply (s : spec) (o : sop) : spec :=
  match o with
  | SNop => s
  | SAddInput => mkSpec (S (s_inputs s)) (s_outputs s) (s_doms s) (s_procs s) (s_bonds s)
  | SDelInput r =>
      mkSpec (s_inputs s - 1) (s_outputs s) (s_doms s) (s_procs s)
             (map (fun p => (ren_BI r (fst p), snd p))
                  (filter (fun p => negb (is_BI r (fst p))) (s_bonds s)))
  | SAddOutput => s_add_output s
  | SDelOutput r =>
      mkSpec (s_inputs s) (s_outputs s - 1) (s_doms s) (s_procs s)
             (map (fun p => (fst p, ren_BO r (snd p)))
                  (filter (fun p => negb (is_BO r (snd p))) (s_bonds s)))
  | SAddProc d => s_add_proc s d
  | SAddBond a b => s_add_bond s a b
  | SDelBondOf e => with_bonds s (filter (fun p => negb (ep_eqb (snd p) e)) (s_bonds s))
  | SAttach a b =>
      let p := length (s_procs s) in
      let s2 := s_add_proc (s_add_dom s (2, 1)) (length (s_doms s)) in
      let s3 := s_add_bond s2 (Name (PI p 0)) a in
      let s4 := s_add_bond s3 (Name (PI p 1)) b in
      s_add_bond (s_add_output s4) (Name (PO p 0)) (Name (BO (s_outputs s)))
  end.

(* which abstract operation a concrete call is, in state b *)
Definition abs_op (b : bm) (o : op) : sop :=
  match snd (apply b o), o with
  | Done, AddInput => SAddInput
  | Done, DelInput z => SDelInput (Z.to_nat z)
  | Done, AddOutput => SAddOutput
  | Done, DelOutput z => SDelOutput (Z.to_nat z)
  | Done, AddProc z => SAddProc (Z.to_nat z)
  | Done, AddBond a c => SAddBond a c
  | Done, DelBond z => match nth_error (iin b) (Z.to_nat z) with Some e => SDelBondOf e | None => SNop end
  | Done, AttachBench a c => SAttach a c
  | _, _ => SNop
  end.

(* set equality of bond lists, as a boolean (used by the correspondence check) *)
Definition pair_eqb (p q : ep * ep) := ep_eqb (fst p) (fst q) && ep_eqb (snd p) (snd q).
Definition subsetb (A B : list (ep * ep)) := forallb (fun p => existsb (pair_eqb p) B) A.
Definition same_bonds (A B : list (ep * ep)) := subsetb A B && subsetb B A.
