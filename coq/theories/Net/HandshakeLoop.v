(* Net/HandshakeLoop.v — programs with a fixed number of non-IO instructions between IO
   instructions, closed over the handshake automata (one producer, one consumer): what each side
   executes is now determined by where its program counter is, which depends on the handshake. *)
From Coq Require Import List NArith Bool Arith.
From BM Require Import Net.Handshake.
Import ListNotations.

Record pctl := mkPC { pc_vals : list N; pc_idle : nat }.     (* values still to send; pad instructions left *)
Record cctl := mkCC { cc_left : nat; cc_idle : nat }.        (* reads still to do; pad instructions left *)

Definition p_action (p : pctl) : pact :=
  match pc_idle p, pc_vals p with
  | O, v :: _ => PIo v
  | _, _ => PIdle
  end.
Definition c_action (c : cctl) : cact :=
  match cc_idle c, cc_left c with
  | O, S _ => CIo
  | _, _ => CIdle
  end.

(* ---- simulator ---- *)
Definition sl_step (padp padc : nat) (st : ssys * pctl * cctl) : ssys * pctl * cctl :=
  let '(s, p, c) := st in
  let s' := s_step s (p_action p) [c_action c] in
  let completed := negb (Nat.eqb (length (sp_sent (s_prod s'))) (length (sp_sent (s_prod s)))) in
  let captured := match s_cons s, s_cons s' with
                  | [c0], [c1] => negb (Nat.eqb (length (sc_got c1)) (length (sc_got c0)))
                  | _, _ => false end in
  let p' := if completed then mkPC (tl (pc_vals p)) padp
            else mkPC (pc_vals p) (pred (pc_idle p)) in
  let c' := if captured then mkCC (pred (cc_left c)) padc
            else mkCC (cc_left c) (pred (cc_idle c)) in
  (s', p', c').

Fixpoint sl_run (padp padc n : nat) (st : ssys * pctl * cctl) : ssys * pctl * cctl :=
  match n with O => st | S k => sl_run padp padc k (sl_step padp padc st) end.

(* ---- hardware ---- *)
Definition hl_step (padp padc : nat) (st : hsys * pctl * cctl) : hsys * pctl * cctl :=
  let '(s, p, c) := st in
  let s' := h_step s (p_action p) [c_action c] in
  let completed := negb (Nat.eqb (length (hp_sent (h_prod s'))) (length (hp_sent (h_prod s)))) in
  let captured := match h_cons s, h_cons s' with
                  | [c0], [c1] => negb (Nat.eqb (length (hc_got c1)) (length (hc_got c0)))
                  | _, _ => false end in
  let p' := if completed then mkPC (tl (pc_vals p)) padp
            else mkPC (pc_vals p) (pred (pc_idle p)) in
  let c' := if captured then mkCC (pred (cc_left c)) padc
            else mkCC (cc_left c) (pred (cc_idle c)) in
  (s', p', c').

Fixpoint hl_run (padp padc n : nat) (st : hsys * pctl * cctl) : hsys * pctl * cctl :=
  match n with O => st | S k => hl_run padp padc k (hl_step padp padc st) end.
