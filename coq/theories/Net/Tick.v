(* Net/Tick.v — model of bondmachine.VM.Step: data/valid move forward along the links, received
   flags move backward (an output's received = conjunction over the inputs bonded to it), all
   processors execute one simulator step, and the data movement is repeated. *)
From Coq Require Import List NArith Bool Arith.
From BM Require Import Net.Topo Isa.Sim.
Import ListNotations.
Local Open Scope N_scope.

Record proc := mkProc { p_rsize : N; p_prog : list instr }.

Record vm := mkVM {
  v_procs : list pstate;
  v_in : list N; v_in_valid : list bool; v_in_recv : list bool;         (* external inputs *)
  v_out : list N; v_out_valid : list bool; v_out_recv : list bool;      (* external outputs *)
  v_iin : list N; v_iin_valid : list bool; v_iin_recv : list bool;      (* per internal input *)
  v_iout : list N; v_iout_valid : list bool; v_iout_recv : list bool    (* per internal output *)
}.

Definition idx {A} (l : list A) := combine (seq 0 (length l)) l.

(* conjunction of the received flags of the inputs linked to output j; false when none *)
Definition recv_and (links : list (option nat)) (iin_recv : list bool) (j : nat) : bool :=
  let consumers := filter (fun p => match snd p with Some k => Nat.eqb k j | None => false end) (idx links) in
  match consumers with
  | [] => false
  | _ => forallb (fun p => nthB iin_recv (fst p)) consumers
  end.

Definition set_proc_input (ps : list pstate) (p k : nat) (v : N) (b : bool) : list pstate :=
  match nth_error ps p with
  | Some s => upd p (mkP (pc s) (regs s) (upd k v (inputs s)) (upd k b (in_valid s)) (in_recv s)
                         (outputs s) (out_valid s) (out_recv s) (deferred s) (phases s)) ps
  | None => ps end.
Definition set_proc_outrecv (ps : list pstate) (p k : nat) (b : bool) : list pstate :=
  match nth_error ps p with
  | Some s => upd p (mkP (pc s) (regs s) (inputs s) (in_valid s) (in_recv s)
                         (outputs s) (out_valid s) (upd k b (out_recv s)) (deferred s) (phases s)) ps
  | None => ps end.

Definition forward (t : bm) (v : vm) : vm :=
  (* internal outputs fed by external inputs *)
  let io := fold_left (fun (acc : list N * list bool) p =>
                         match snd p with
                         | BI r => (upd (fst p) (nthN (v_in v) r) (fst acc), upd (fst p) (nthB (v_in_valid v) r) (snd acc))
                         | _ => acc end) (idx (iout t)) (v_iout v, v_iout_valid v) in
  (* links *)
  let ii := fold_left (fun (acc : list N * list bool) p =>
                         match snd p with
                         | Some j => (upd (fst p) (nthN (fst io) j) (fst acc), upd (fst p) (nthB (snd io) j) (snd acc))
                         | None => acc end) (idx (links t)) (v_iin v, v_iin_valid v) in
  (* into the processors *)
  let ps := fold_left (fun ps p => match snd p with
                                   | PI q k => set_proc_input ps q k (nthN (fst ii) (fst p)) (nthB (snd ii) (fst p))
                                   | _ => ps end) (idx (iin t)) (v_procs v) in
  mkVM ps (v_in v) (v_in_valid v) (v_in_recv v) (v_out v) (v_out_valid v) (v_out_recv v)
       (fst ii) (snd ii) (v_iin_recv v) (fst io) (snd io) (v_iout_recv v).

Definition backward_pre (t : bm) (v : vm) : vm :=
  let ir := fold_left (fun acc p => match snd p with BO r => upd (fst p) (nthB (v_out_recv v) r) acc | _ => acc end)
                      (idx (iin t)) (v_iin_recv v) in
  let orr := map (fun j => recv_and (links t) ir j) (seq 0 (length (iout t))) in
  let ps := fold_left (fun ps p => match snd p with PO q k => set_proc_outrecv ps q k (nthB orr (fst p)) | _ => ps end)
                      (idx (iout t)) (v_procs v) in
  mkVM ps (v_in v) (v_in_valid v) (v_in_recv v) (v_out v) (v_out_valid v) (v_out_recv v)
       (v_iin v) (v_iin_valid v) ir (v_iout v) (v_iout_valid v) orr.

Definition compute (cfg : list proc) (v : vm) : vm :=
  let ps := map (fun p => pstep (p_rsize (fst p)) (p_prog (fst p)) (snd p)) (combine cfg (v_procs v)) in
  mkVM ps (v_in v) (v_in_valid v) (v_in_recv v) (v_out v) (v_out_valid v) (v_out_recv v)
       (v_iin v) (v_iin_valid v) (v_iin_recv v) (v_iout v) (v_iout_valid v) (v_iout_recv v).

Definition post (t : bm) (v : vm) : vm :=
  let io := fold_left (fun (acc : list N * list bool) p =>
                         match snd p with
                         | PO q k => let s := nth q (v_procs v) (init_pstate 0 0 0) in
                                     (upd (fst p) (nthN (outputs s) k) (fst acc), upd (fst p) (nthB (out_valid s) k) (snd acc))
                         | _ => acc end) (idx (iout t)) (v_iout v, v_iout_valid v) in
  let ii := fold_left (fun (acc : list N * list bool) p =>
                         match snd p with
                         | Some j => (upd (fst p) (nthN (fst io) j) (fst acc), upd (fst p) (nthB (snd io) j) (snd acc))
                         | None => acc end) (idx (links t)) (v_iin v, v_iin_valid v) in
  let outs := fold_left (fun (acc : list N * list bool) p =>
                           match snd p with
                           | BO r => (upd r (nthN (fst ii) (fst p)) (fst acc), upd r (nthB (snd ii) (fst p)) (snd acc))
                           | _ => acc end) (idx (iin t)) (v_out v, v_out_valid v) in
  let ir := fold_left (fun acc p => match snd p with
                                    | PI q k => upd (fst p) (nthB (in_recv (nth q (v_procs v) (init_pstate 0 0 0))) k) acc
                                    | _ => acc end) (idx (iin t)) (v_iin_recv v) in
  let orr := map (fun j => recv_and (links t) ir j) (seq 0 (length (iout t))) in
  let inr := fold_left (fun acc p => match snd p with BI r => upd r (nthB orr (fst p)) acc | _ => acc end)
                       (idx (iout t)) (v_in_recv v) in
  mkVM (v_procs v) (v_in v) (v_in_valid v) inr (fst outs) (snd outs) (v_out_recv v)
       (fst ii) (snd ii) ir (fst io) (snd io) orr.

Definition tick (t : bm) (cfg : list proc) (v : vm) : vm :=
  post t (compute cfg (backward_pre t (forward t v))).

Definition init_vm (t : bm) (rbits : list nat) : vm :=
  let ps := map (fun p => let '(n, m) := nth (snd p) (doms t) (0%nat, 0%nat) in init_pstate (nth (fst p) rbits 0%nat) n m)
                (idx (procs t)) in
  mkVM ps (repeat 0 (Topo.inputs t)) (repeat false (Topo.inputs t)) (repeat false (Topo.inputs t))
       (repeat 0 (Topo.outputs t)) (repeat false (Topo.outputs t)) (repeat false (Topo.outputs t))
       (repeat 0 (length (iin t))) (repeat false (length (iin t))) (repeat false (length (iin t)))
       (repeat 0 (length (iout t))) (repeat false (length (iout t))) (repeat false (length (iout t))).

(* the same tick with an arbitrary step function per processor (used to run a machine from the
   source-level meaning of its programs) *)
Definition compute_with (steps : list (pstate -> pstate)) (v : vm) : vm :=
  let ps := map (fun p => fst p (snd p)) (combine steps (v_procs v)) in
  mkVM ps (v_in v) (v_in_valid v) (v_in_recv v) (v_out v) (v_out_valid v) (v_out_recv v)
       (v_iin v) (v_iin_valid v) (v_iin_recv v) (v_iout v) (v_iout_valid v) (v_iout_recv v).
Definition tick_with (t : bm) (steps : list (pstate -> pstate)) (v : vm) : vm :=
  post t (compute_with steps (backward_pre t (forward t v))).
Definition rom_steps (cfg : list proc) : list (pstate -> pstate) := map (fun p => pstep (p_rsize p) (p_prog p)) cfg.

Lemma tick_is_tick_with t cfg v : tick t cfg v = tick_with t (rom_steps cfg) v.
Proof.
  unfold tick, tick_with. f_equal. unfold compute, compute_with, rom_steps. f_equal.
  generalize (v_procs (backward_pre t (forward t v))). induction cfg as [|c cfg IH]; intros [|p ps]; simpl; auto.
  f_equal. apply IH.
Qed.
