(* Gen/StackModel.v — Gallina transcription of the LIFO/FIFO template of pkg/bmstack/stackfile.go,
   parametric in memory type, depth, data width and the numbers of senders and receivers.
   One call of [step] is one rising clock edge of the generated module. *)
From Coq Require Import List NArith Bool Arith Lia.
Import ListNotations.
Local Open Scope N_scope.

Inductive memtype := LIFO | FIFO.

Record cfg := mkCfg { c_mt : memtype; c_depth : nat; c_dsize : N; c_snd : nat; c_rcv : nat }.

(* bmstack.NeededBits *)
Fixpoint nb_from (fuel b : nat) (n : N) : nat :=
  match fuel with O => b | S f => if n <=? 2 ^ N.of_nat b then b else nb_from f (S b) n end.
Definition nbits (n : N) : N := if n =? 0 then 0 else N.of_nat (nb_from 62 1 n).

Definition wsp (c : cfg) : N := nbits (N.of_nat (c_depth c) + 1).
Definition wsm (n : nat) : N := nbits (N.of_nat n).
Definition msk (w v : N) : N := v mod 2 ^ w.

Record st := mkSt {
  mem : list N; sp : N; readsp : N; writesp : N; sendSM : N; recvSM : N;
  sack : list bool; rack : list bool; rdata : list N }.

Record inp := mkInp { i_reset : bool; i_write : list bool; i_wdata : list N; i_read : list bool }.

Definition nthb (l : list bool) (k : nat) : bool := nth k l false.
Definition nthn (l : list N) (k : nat) : N := nth k l 0.
Fixpoint setn {A} (k : nat) (v : A) (l : list A) : list A :=
  match l, k with [], _ => [] | _ :: t, O => v :: t | x :: t, S k' => x :: setn k' v t end.

Definition next (k n : nat) : nat := if Nat.ltb k (n - 1) then S k else 0%nat.

Definition is_empty (s : st) : bool := sp s =? 0.
Definition is_full (c : cfg) (s : st) : bool := sp s =? N.of_nat (c_depth c).

Definition reset_state (c : cfg) : st :=
  mkSt (repeat 0 (c_depth c)) 0 0 0 0 0 (repeat false (c_snd c)) (repeat false (c_rcv c)) (repeat 0 (c_rcv c)).

(* the conditions under which the template moves an element this cycle *)
Definition read_fires (c : cfg) (s : st) (i : inp) (k : nat) : bool :=
  existsb (fun b => b) (i_read i) && negb (is_empty s) &&
  (N.of_nat k =? recvSM s) && nthb (i_read i) k && negb (nthb (rack s) k).
Definition write_fires (c : cfg) (s : st) (i : inp) (k : nat) : bool :=
  negb (existsb (fun b => b) (i_read i) && negb (is_empty s)) &&
  existsb (fun b => b) (i_write i) && negb (is_full c s) &&
  (N.of_nat k =? sendSM s) && nthb (i_write i) k && negb (nthb (sack s) k).

Definition step (c : cfg) (s : st) (i : inp) : st :=
  if i_reset i then reset_state c else
  let D := N.of_nat (c_depth c) in
  let w := wsp c in
  let readneed := existsb (fun b => b) (i_read i) in
  let writeneed := existsb (fun b => b) (i_write i) in
  let empty := is_empty s in
  let full := is_full c s in
  let rk := N.to_nat (recvSM s) in
  let sk := N.to_nat (sendSM s) in
  let reading := readneed && negb empty in
  let writing := negb reading && writeneed && negb full in
  let rd_hit := reading && Nat.ltb rk (c_rcv c) && nthb (i_read i) rk && negb (nthb (rack s) rk) in
  let wr_hit := writing && Nat.ltb sk (c_snd c) && nthb (i_write i) sk && negb (nthb (sack s) sk) in
  (* data path *)
  let rdata' :=
      if rd_hit then
        setn rk (msk (c_dsize c)
                     (match c_mt c with
                      | LIFO => let idx := msk 32 (sp s + 2 ^ 32 - 1) in
                                if idx <? D then nthn (mem s) (N.to_nat idx) else 0
                      | FIFO => if readsp s <? D then nthn (mem s) (N.to_nat (readsp s)) else 0 end)) (rdata s)
      else rdata s in
  let mem' :=
      if wr_hit then
        let idx := match c_mt c with LIFO => sp s | FIFO => writesp s end in
        if idx <? D then setn (N.to_nat idx) (msk (c_dsize c) (nthn (i_wdata i) sk)) (mem s) else mem s
      else mem s in
  let sp' :=
      if rd_hit then
        match c_mt c with
        | LIFO => msk w (sp s + 2 ^ 32 - 1)
        | FIFO => if readsp s =? D - 1 then msk w (writesp s)
                  else if writesp s <? readsp s + 1 then msk w (D + 2 ^ 32 - readsp s - 1 + writesp s)
                       else msk w (writesp s + 2 ^ 32 - readsp s - 1)
        end
      else if wr_hit then
        match c_mt c with
        | LIFO => msk w (sp s + 1)
        | FIFO => if writesp s =? D - 1 then msk w (D + 2 ^ 32 - readsp s)
                  else if readsp s <? writesp s + 1 then msk w (writesp s + 2 ^ 32 - readsp s + 1)
                       else msk w (D + 2 ^ 32 - readsp s + writesp s + 1)
        end
      else sp s in
  let readsp' :=
      match c_mt c with
      | FIFO => if rd_hit then (if readsp s =? D - 1 then 0 else msk w (readsp s + 1)) else readsp s
      | LIFO => readsp s end in
  let writesp' :=
      match c_mt c with
      | FIFO => if wr_hit then (if writesp s =? D - 1 then 0 else msk w (writesp s + 1)) else writesp s
      | LIFO => writesp s end in
  let recvSM' := if reading && Nat.ltb rk (c_rcv c) then N.of_nat (next rk (c_rcv c)) else recvSM s in
  let sendSM' := if writing && Nat.ltb sk (c_snd c) then N.of_nat (next sk (c_snd c)) else sendSM s in
  (* acknowledge processes *)
  let rack' := map (fun k => if nthb (i_read i) k && negb (nthb (rack s) k) && (recvSM s =? N.of_nat k) && negb empty then true
                             else if negb (nthb (i_read i) k) then false else nthb (rack s) k)
                   (seq 0 (c_rcv c)) in
  let sack' := map (fun k => if negb reading && nthb (i_write i) k && negb (nthb (sack s) k) && (sendSM s =? N.of_nat k) && negb full
                             then true
                             else if negb (nthb (i_write i) k) then false else nthb (sack s) k)
                   (seq 0 (c_snd c)) in
  mkSt mem' sp' readsp' writesp' sendSM' recvSM' sack' rack' rdata'.
