(* Gen/StackCheck.v — ties Gen.StackModel to the emitted module interpreted by Vlog.Sem:
   conversions between model states and interpreter states, exhaustive enumeration of the state
   and input spaces of a configuration, and the comparison itself. *)
From Coq Require Import List NArith PArith Bool Arith.
From BM Require Import Vlog.Syntax Vlog.Sem Gen.StackModel.
Import ListNotations.
Local Open Scope N_scope.

(* identifiers of the module's registers / ports, supplied by the front-end *)
Record names := mkNames {
  n_reset : ident; n_mem : ident; n_sp : ident; n_readsp : ident; n_writesp : ident; n_sendSM : ident; n_recvSM : ident;
  n_swrite : list ident; n_sdata : list ident; n_sack : list ident;
  n_rread : list ident; n_rdata : list ident; n_rack : list ident }.

Definition b2N (b : bool) : N := if b then 1 else 0.

Definition to_sem (nm : names) (s : StackModel.st) : Sem.state :=
  let v0 := PM.empty N in
  let v1 := PM.add (n_sp nm) (sp s) (PM.add (n_readsp nm) (readsp s) (PM.add (n_writesp nm) (writesp s)
            (PM.add (n_sendSM nm) (sendSM s) (PM.add (n_recvSM nm) (recvSM s) v0)))) in
  let v2 := fold_left (fun m p => PM.add (fst p) (b2N (snd p)) m) (combine (n_sack nm) (sack s)) v1 in
  let v3 := fold_left (fun m p => PM.add (fst p) (b2N (snd p)) m) (combine (n_rack nm) (rack s)) v2 in
  let v4 := fold_left (fun m p => PM.add (fst p) (snd p) m) (combine (n_rdata nm) (rdata s)) v3 in
  let memmap := fold_left (fun m p => PM.add (key (N.of_nat (fst p))) (snd p) m)
                          (combine (seq 0 (length (mem s))) (mem s)) (PM.empty N) in
  Sem.mkSt v4 (PM.add (n_mem nm) memmap (PM.empty (PM.t N))).

Definition of_sem (nm : names) (c : cfg) (h : Sem.state) : StackModel.st :=
  StackModel.mkSt (map (fun k => getm h (n_mem nm) (N.of_nat k)) (seq 0 (c_depth c)))
                  (get h (n_sp nm)) (get h (n_readsp nm)) (get h (n_writesp nm)) (get h (n_sendSM nm)) (get h (n_recvSM nm))
                  (map (fun x => negb (get h x =? 0)) (n_sack nm)) (map (fun x => negb (get h x =? 0)) (n_rack nm))
                  (map (get h) (n_rdata nm)).

Definition sem_inputs (nm : names) (i : inp) : list (ident * N) :=
  (n_reset nm, b2N (i_reset i)) ::
  map (fun p => (fst p, b2N (snd p))) (combine (n_swrite nm) (i_write i)) ++
  combine (n_sdata nm) (i_wdata i) ++
  map (fun p => (fst p, b2N (snd p))) (combine (n_rread nm) (i_read i)).

Fixpoint list_eqb {A} (e : A -> A -> bool) (a b : list A) : bool :=
  match a, b with [], [] => true | x :: a', y :: b' => e x y && list_eqb e a' b' | _, _ => false end.

Definition st_eqb (c : cfg) (a b : StackModel.st) : bool :=
  list_eqb N.eqb (mem a) (mem b) && (sp a =? sp b) &&
  (match c_mt c with FIFO => (readsp a =? readsp b) && (writesp a =? writesp b) | LIFO => true end) &&
  (sendSM a =? sendSM b) && (recvSM a =? recvSM b) &&
  list_eqb Bool.eqb (sack a) (sack b) && list_eqb Bool.eqb (rack a) (rack b) && list_eqb N.eqb (rdata a) (rdata b).

(* one comparison: the interpreter's clock cycle from the image of s equals the model's step *)
Definition agree (M : emod) (nm : names) (c : cfg) (s : StackModel.st) (i : inp) : bool :=
  match cycle M (sem_inputs nm i) (to_sem nm s) with
  | Ok h => st_eqb c (of_sem nm c h) (step c s i)
  | Err _ => false
  end.

(* ---- enumeration ---- *)
Definition range (n : N) : list N := map N.of_nat (seq 0 (N.to_nat n)).
Fixpoint lists_of {A} (dom : list A) (n : nat) : list (list A) :=
  match n with O => [[]] | S k => flat_map (fun x => map (cons x) (lists_of dom k)) dom end.

Definition all_states (c : cfg) : list StackModel.st :=
  let W := 2 ^ wsp c in
  let ptrs := match c_mt c with FIFO => range W | LIFO => [0] end in
  flat_map (fun m =>
  flat_map (fun spv =>
  flat_map (fun rp =>
  flat_map (fun wp =>
  flat_map (fun ss =>
  flat_map (fun rs =>
  flat_map (fun sa =>
  flat_map (fun ra =>
  map (fun rd => StackModel.mkSt m spv rp wp ss rs sa ra rd)
      (lists_of (range (2 ^ c_dsize c)) (c_rcv c)))
      (lists_of [false; true] (c_rcv c)))
      (lists_of [false; true] (c_snd c)))
      (range (2 ^ wsm (c_rcv c))))
      (range (2 ^ wsm (c_snd c))))
      ptrs) ptrs)
      (range W))
      (lists_of (range (2 ^ c_dsize c)) (c_depth c)).

Definition all_inputs (c : cfg) : list inp :=
  flat_map (fun r =>
  flat_map (fun w =>
  flat_map (fun d =>
  map (fun rd => mkInp r w d rd) (lists_of [false; true] (c_rcv c)))
      (lists_of (range (2 ^ c_dsize c)) (c_snd c)))
      (lists_of [false; true] (c_snd c)))
      [false; true].

(* number of (state, input) pairs on which circuit and model differ, and the number compared *)
Definition exhaustive (M : emod) (nm : names) (c : cfg) : N * N :=
  let ins := all_inputs c in
  fold_left (fun acc s => fold_left (fun acc i => (if agree M nm c s i then fst acc else fst acc + 1, snd acc + 1)) ins acc)
            (all_states c) (0, 0).

Definition first_disagreement (M : emod) (nm : names) (c : cfg) : option (StackModel.st * inp) :=
  let ins := all_inputs c in
  find (fun p => negb (agree M nm c (fst p) (snd p))) (flat_map (fun s => map (fun i => (s, i)) ins) (all_states c)).

(* run both from reset along an input sequence; returns the index of the first difference *)
Fixpoint lockstep (M : emod) (nm : names) (c : cfg) (k : nat) (h : Sem.state) (s : StackModel.st) (ins : list inp) : option nat :=
  match ins with
  | [] => None
  | i :: rest =>
      match cycle M (sem_inputs nm i) h with
      | Ok h' => let s' := step c s i in
                 if st_eqb c (of_sem nm c h') s' then lockstep M nm c (S k) h' s' rest else Some k
      | Err _ => Some k
      end
  end.

(* ---- the property's own wording, read off the circuit alone ----
   An abstract sequence (oldest first) is maintained from the acknowledgements only: an Ack that rises for a
   receiver is a read, which must return the element the discipline prescribes and removes it; an Ack that
   rises for a sender is a write of the data on its wires in that cycle.  Codes: 2 a read acknowledged when
   empty, 3 a read returned another element, 4 a write acknowledged when full, 5 sp is not the number of
   stored elements, 9 the circuit cannot be executed. *)
Definition rose (h h' : Sem.state) (x : ident) : bool := (get h x =? 0) && negb (get h' x =? 0).

Fixpoint do_reads (mt : memtype) (h h' : Sem.state) (racks rdatas : list ident) (q : list N) : list N + N :=
  match racks, rdatas with
  | a :: racks', d :: rdatas' =>
      if rose h h' a then
        match mt, q with
        | _, [] => inr 2
        | FIFO, x :: q' => if get h' d =? x then do_reads mt h h' racks' rdatas' q' else inr 3
        | LIFO, _ => if get h' d =? last q 0 then do_reads mt h h' racks' rdatas' (removelast q) else inr 3
        end
      else do_reads mt h h' racks' rdatas' q
  | _, _ => inl q
  end.

Fixpoint do_writes (depth : nat) (h h' : Sem.state) (sacks : list ident) (datas : list N) (q : list N) : list N + N :=
  match sacks, datas with
  | a :: sacks', d :: datas' =>
      if rose h h' a then (if Nat.ltb (length q) depth then do_writes depth h h' sacks' datas' (q ++ [d]) else inr 4)
      else do_writes depth h h' sacks' datas' q
  | _, _ => inl q
  end.

Fixpoint discipline (M : emod) (nm : names) (c : cfg) (k : nat) (h : Sem.state) (q : list N) (ins : list inp) : option (nat * N) :=
  match ins with
  | [] => None
  | i :: rest =>
      match cycle M (sem_inputs nm i) h with
      | Err _ => Some (k, 9)
      | Ok h' =>
          if i_reset i then discipline M nm c (S k) h' [] rest
          else match do_reads (c_mt c) h h' (n_rack nm) (n_rdata nm) q with
               | inr e => Some (k, e)
               | inl q1 =>
                   match do_writes (c_depth c) h h' (n_sack nm) (map (msk (c_dsize c)) (i_wdata i)) q1 with
                   | inr e => Some (k, e)
                   | inl q2 => if get h' (n_sp nm) =? N.of_nat (length q2) then discipline M nm c (S k) h' q2 rest else Some (k, 5)
                   end
               end
      end
  end.
