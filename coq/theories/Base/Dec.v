(* Base/Dec.v — decimal printing and (canonical) parsing of naturals over Coq strings:
   the model of strconv.Itoa / FormatUint and of comparisons such as
   words[0] == "r" + strconv.Itoa(i).  Built on the standard library's DecimalString. *)
From Coq Require Import String Ascii NArith List DecimalString DecimalN Decimal.
Import ListNotations.
Local Open Scope string_scope.

Definition print_dec (n : N) : string := NilEmpty.string_of_uint (N.to_uint n).

(* value of any digit string (leading zeros allowed), None if empty or not all digits:
   strconv.ParseUint without the range check *)
Definition parse_digits (s : string) : option N :=
  match s with
  | EmptyString => None
  | _ => option_map N.of_uint (NilEmpty.uint_of_string s)
  end.

(* canonical: only the string print_dec produces is accepted *)
Definition parse_canon (s : string) : option N :=
  match parse_digits s with
  | Some n => if String.eqb (print_dec n) s then Some n else None
  | None => None
  end.

Lemma print_dec_nonempty n : print_dec n <> "".
Proof.
  unfold print_dec. destruct n as [|p]; [discriminate|].
  unfold N.to_uint. intro H.
  assert (E : NilEmpty.uint_of_string (NilEmpty.string_of_uint (Pos.to_uint p)) = Some (Pos.to_uint p))
    by apply NilEmpty.usu.
  rewrite H in E. simpl in E. inversion E as [E']. 
  pose proof (DecimalPos.Unsigned.of_to p) as Hp. rewrite <- E' in Hp. discriminate.
Qed.

Lemma parse_digits_print n : parse_digits (print_dec n) = Some n.
Proof.
  unfold parse_digits. pose proof (print_dec_nonempty n) as Hne.
  destruct (print_dec n) eqn:E; [congruence|]. rewrite <- E. unfold print_dec.
  rewrite NilEmpty.usu. simpl. f_equal. apply Unsigned.of_to.
Qed.

Lemma parse_canon_print n : parse_canon (print_dec n) = Some n.
Proof. unfold parse_canon. rewrite parse_digits_print, String.eqb_refl. reflexivity. Qed.

Lemma parse_canon_some s n : parse_canon s = Some n -> s = print_dec n.
Proof.
  unfold parse_canon. destruct (parse_digits s) as [m|]; [|discriminate].
  destruct (String.eqb (print_dec m) s) eqn:E; [|discriminate].
  intro H; inversion H; subst. symmetry. apply String.eqb_eq; auto.
Qed.

Lemma print_dec_inj a b : print_dec a = print_dec b -> a = b.
Proof.
  intro H. pose proof (parse_digits_print a) as Ha. rewrite H, parse_digits_print in Ha. congruence.
Qed.
