(* Base/Bits.v — '0'/'1' Go strings as lists of booleans (most significant first) and the
   helpers of pkg/procbuilder/utils.go: get_id, get_binary, zeros_prefix, zeros_suffix,
   Needed_bits, and the "first b in 1..15 with 2^b >= n, else 1" rule of
   Opcodes_bits / Inputs_bits / Outputs_bits.  Definitions and their lemmas. *)
From Coq Require Import List NArith ZArith Bool Arith Lia.
Import ListNotations.
Local Open Scope N_scope.

Definition bstr := list bool.

Definition b2n (b : bool) : N := if b then 1 else 0.

(* get_id: sum of 2^i for every '1' at distance i from the right *)
Definition get_id (s : bstr) : N := fold_left (fun acc b => 2 * acc + b2n b) s 0.

(* strconv.FormatInt(v, 2): no leading zeros, "0" for 0 *)
Fixpoint pos_bits (p : positive) : bstr :=
  match p with
  | xH => [true]
  | xO q => pos_bits q ++ [false]
  | xI q => pos_bits q ++ [true]
  end.
Definition get_binary (v : N) : bstr := match v with N0 => [false] | Npos p => pos_bits p end.

(* zeros_prefix(num, value): pads on the left, never truncates *)
Definition zeros_prefix (n : nat) (s : bstr) : bstr := repeat false (n - length s) ++ s.
Definition zeros_suffix (n : nat) (s : bstr) : bstr := s ++ repeat false (n - length s).

(* Opcodes_bits / Inputs_bits / Outputs_bits *)
Fixpoint sel_bits_from (fuel : nat) (b : nat) (n : N) : nat :=
  match fuel with
  | O => 1%nat
  | S f => if n <=? 2 ^ N.of_nat b then b else sel_bits_from f (S b) n
  end.
Definition sel_bits (n : N) : nat := sel_bits_from 15 1 n.

(* Needed_bits: 0 for 0, else first b >= 1 with 2^b >= n (domain guard: n <= 2^62) *)
Fixpoint needed_from (fuel : nat) (b : nat) (n : N) : nat :=
  match fuel with
  | O => b
  | S f => if n <=? 2 ^ N.of_nat b then b else needed_from f (S b) n
  end.
Definition needed_bits (n : N) : nat := if n =? 0 then 0%nat else needed_from 62 1 n.

(* ------------------------------------------------------------------ lemmas *)

Lemma fold_get_id_app acc s t :
  fold_left (fun a b => 2 * a + b2n b) (s ++ t) acc =
  fold_left (fun a b => 2 * a + b2n b) t (fold_left (fun a b => 2 * a + b2n b) s acc).
Proof. apply fold_left_app. Qed.

Lemma fold_get_id_acc s acc :
  fold_left (fun a b => 2 * a + b2n b) s acc = acc * 2 ^ N.of_nat (length s) + get_id s.
Proof.
  unfold get_id. revert acc. induction s as [|b s IH]; intro acc.
  - simpl. lia.
  - cbn [fold_left length]. rewrite IH. rewrite (IH (2 * 0 + b2n b)).
    rewrite Nat2N.inj_succ, N.pow_succ_r'. lia.
Qed.

Lemma get_id_app s t : get_id (s ++ t) = get_id s * 2 ^ N.of_nat (length t) + get_id t.
Proof. unfold get_id at 1. rewrite fold_get_id_app, fold_get_id_acc. reflexivity. Qed.

Lemma get_id_cons b s : get_id (b :: s) = b2n b * 2 ^ N.of_nat (length s) + get_id s.
Proof. change (b :: s) with ([b] ++ s). rewrite get_id_app. destruct b; reflexivity. Qed.

Lemma get_id_repeat_false n : get_id (repeat false n) = 0.
Proof. induction n; [reflexivity|]. cbn [repeat]. rewrite get_id_cons, IHn. simpl. lia. Qed.

Lemma get_id_zeros_prefix n s : get_id (zeros_prefix n s) = get_id s.
Proof. unfold zeros_prefix. rewrite get_id_app, get_id_repeat_false. lia. Qed.

Lemma length_zeros_prefix n s : length (zeros_prefix n s) = Nat.max n (length s).
Proof. unfold zeros_prefix. rewrite app_length, repeat_length. lia. Qed.

Lemma get_id_pos_bits p : get_id (pos_bits p) = Npos p.
Proof.
  induction p; cbn [pos_bits]; try rewrite get_id_app, IHp; cbn [length Nat2N.inj]; try reflexivity.
  - change (N.of_nat 1) with 1. rewrite N.pow_1_r. cbn. lia.
  - change (N.of_nat 1) with 1. rewrite N.pow_1_r. cbn. lia.
Qed.

Lemma get_id_get_binary v : get_id (get_binary v) = v.
Proof. destruct v; [reflexivity|apply get_id_pos_bits]. Qed.

Lemma get_binary_nonempty v : get_binary v <> [].
Proof.
  destruct v as [|p]; [discriminate|]. cbn [get_binary].
  destruct p; cbn [pos_bits]; try discriminate; intro H; apply app_eq_nil in H; destruct H; discriminate.
Qed.

Lemma get_id_lt s : get_id s < 2 ^ N.of_nat (length s).
Proof.
  induction s as [|b s IH].
  - cbn. lia.
  - rewrite get_id_cons. cbn [length]. rewrite Nat2N.inj_succ, N.pow_succ_r'.
    destruct b; cbn [b2n]; lia.
Qed.

(* equal length + equal value = equal strings *)
Lemma get_id_inj s t : length s = length t -> get_id s = get_id t -> s = t.
Proof.
  revert t; induction s as [|a s IH]; intros [|b t] Hl Hv; try discriminate; auto.
  injection Hl as Hl. rewrite !get_id_cons, Hl in Hv.
  pose proof (get_id_lt s) as Hs. pose proof (get_id_lt t) as Ht. rewrite Hl in Hs.
  destruct a, b; cbn [b2n] in Hv; try (f_equal; apply IH; auto; lia); exfalso; lia.
Qed.

Lemma length_pos_bits p : length (pos_bits p) = N.to_nat (N.size (Npos p)).
Proof.
  induction p; cbn [pos_bits]; try rewrite app_length, IHp; cbn [length N.size Pos.size]; try reflexivity.
  - rewrite !positive_N_nat, Pos2Nat.inj_succ. lia.
  - rewrite !positive_N_nat, Pos2Nat.inj_succ. lia.
Qed.

Lemma length_get_binary_le v n : (1 <= n)%nat -> v < 2 ^ N.of_nat n -> (length (get_binary v) <= n)%nat.
Proof.
  intros Hn Hv. destruct v as [|p]; [simpl; lia|]. cbn [get_binary]. rewrite length_pos_bits.
  assert (N.size (Npos p) <= N.of_nat n); [|lia].
  destruct (N.le_gt_cases (N.size (Npos p)) (N.of_nat n)); auto. exfalso.
  pose proof (N.size_gt (Npos p)) as Hgt. pose proof (N.size_le (Npos p)) as Hle.
  assert (2 ^ N.of_nat n <= 2 ^ N.pred (N.size (Npos p))) by (apply N.pow_le_mono_r; lia).
  assert (E : 2 ^ N.size (N.pos p) = 2 * 2 ^ N.pred (N.size (N.pos p))).
  { rewrite <- N.pow_succ_r', N.succ_pred; auto. discriminate. }
  rewrite N.succ_double_spec in Hle. lia.
Qed.

Lemma length_get_binary_gt v n : 2 ^ N.of_nat n <= v -> (n < length (get_binary v))%nat.
Proof.
  intros Hv. pose proof (get_id_lt (get_binary v)) as H. rewrite get_id_get_binary in H.
  destruct (Nat.lt_ge_cases n (length (get_binary v))); auto. exfalso.
  assert (2 ^ N.of_nat (length (get_binary v)) <= 2 ^ N.of_nat n) by (apply N.pow_le_mono_r; lia). lia.
Qed.

(* a field of width n holding value v < 2^n is exactly the n-bit representation *)
Lemma zeros_prefix_binary_of_id s :
  (1 <= length s)%nat -> zeros_prefix (length s) (get_binary (get_id s)) = s.
Proof.
  intro Hl. apply get_id_inj.
  - rewrite length_zeros_prefix. pose proof (length_get_binary_le (get_id s) (length s) Hl (get_id_lt s)). lia.
  - rewrite get_id_zeros_prefix, get_id_get_binary. reflexivity.
Qed.

Lemma firstn_app_exact {A} (s t : list A) : firstn (length s) (s ++ t) = s.
Proof. rewrite firstn_app, Nat.sub_diag, firstn_all. simpl. apply app_nil_r. Qed.
Lemma skipn_app_exact {A} (s t : list A) : skipn (length s) (s ++ t) = t.
Proof. rewrite skipn_app, Nat.sub_diag, skipn_all. reflexivity. Qed.
