package main

import (
	"bufio"
	"encoding/json"
	"os"
	"reflect"

	"github.com/BondMachineHQ/BondMachine/pkg/simbox"
)

type c15Op struct {
	Op string `json:"op"` // add | del | suspend | reactivate
	S  string `json:"s,omitempty"`
	I  int    `json:"i,omitempty"`
}

type c15Rule struct {
	Timec     int    `json:"timec"`
	Tick      uint64 `json:"tick"`
	Action    int    `json:"action"`
	Object    string `json:"object"`
	Extra     string `json:"extra"`
	Suspended bool   `json:"suspended"`
}

type c15Step struct {
	Outcome string    `json:"outcome"`
	Rules   []c15Rule `json:"rules"`
	Print   string    `json:"print"`
	// for a successful add: does the printed form of the new rule parse back to the same rule?
	Printed string `json:"printed,omitempty"`
	RtOk    *bool  `json:"rtok,omitempty"`
}

type c15Case struct {
	Ops      []c15Op   `json:"ops"`
	Steps    []c15Step `json:"steps"`
	JSONOk   bool      `json:"jsonok"` // save -> load gives an equal rule list
	JSONSame bool      `json:"jsonsame"` // save(load(save)) == save
}

func c15Rules(sb *simbox.Simbox) []c15Rule {
	out := []c15Rule{}
	for _, r := range sb.Rules {
		out = append(out, c15Rule{int(r.Timec), r.Tick, int(r.Action), r.Object, r.Extra, r.Suspended})
	}
	return out
}

func c15Apply(sb *simbox.Simbox, o c15Op) (outcome string) {
	defer func() {
		if r := recover(); r != nil {
			outcome = "panic"
		}
	}()
	var err error
	switch o.Op {
	case "add":
		err = sb.Add(o.S)
	case "del":
		err = sb.Del(o.I)
	case "suspend":
		err = sb.Suspend(o.I)
	case "reactivate":
		err = sb.Reactivate(o.I)
	}
	if err != nil {
		return "err"
	}
	return "ok"
}

func init() {
	commands["c15"] = func(args []string) {
		sc := bufio.NewScanner(os.Stdin)
		sc.Buffer(make([]byte, 1<<20), 1<<26)
		for sc.Scan() {
			var c c15Case
			if err := json.Unmarshal(sc.Bytes(), &c); err != nil {
				panic(err)
			}
			sb := new(simbox.Simbox)
			sb.Rules = []simbox.Rule{}
			for _, o := range c.Ops {
				before := len(sb.Rules)
				st := c15Step{Outcome: c15Apply(sb, o)}
				st.Rules = c15Rules(sb)
				st.Print = sb.Print()
				if o.Op == "add" && st.Outcome == "ok" && len(sb.Rules) == before+1 {
					nr := sb.Rules[before]
					st.Printed = nr.String()
					sb2 := new(simbox.Simbox)
					ok := false
					if e := sb2.Add(st.Printed); e == nil && len(sb2.Rules) == 1 {
						ok = reflect.DeepEqual(sb2.Rules[0], nr)
					}
					st.RtOk = &ok
				}
				c.Steps = append(c.Steps, st)
			}
			if b, err := json.Marshal(sb); err == nil {
				sb3 := new(simbox.Simbox)
				if json.Unmarshal(b, sb3) == nil {
					if sb3.Rules == nil {
						sb3.Rules = []simbox.Rule{}
					}
					c.JSONOk = reflect.DeepEqual(sb3.Rules, sb.Rules)
					b2, _ := json.Marshal(sb3)
					c.JSONSame = string(b2) == string(b) || (len(sb.Rules) == 0)
				}
			}
			emit(c)
		}
	}
}
