package main

import (
	"bufio"
	"encoding/json"
	"flag"
	"os"
	"regexp"
	"sort"

	"github.com/BondMachineHQ/BondMachine/pkg/bmnumbers"
)

type c08Req struct {
	Op    string `json:"op"` // "match" | "import" | "nbits"
	Regex string `json:"regex,omitempty"`
	S     string `json:"s"`
	N     int    `json:"n,omitempty"`
}

type c08Res struct {
	Op      string   `json:"op"`
	S       string   `json:"s"`
	Match   bool     `json:"match,omitempty"`
	Matches []string `json:"matches,omitempty"` // which registered matchers accept s
	Err     string   `json:"err,omitempty"`
	Type    string   `json:"type,omitempty"`
	Bits    int      `json:"bits,omitempty"`
	Bin     string   `json:"bin,omitempty"`     // ExportBinary(false)
	Str     string   `json:"str,omitempty"`     // ExportString
	StrErr  string   `json:"strerr,omitempty"`
	Re      string   `json:"re,omitempty"`      // ExportBinary of ImportString(Str)
	ReType  string   `json:"retype,omitempty"`
	ReBits  int      `json:"rebits,omitempty"`
	ReErr   string   `json:"reerr,omitempty"`
	NBits   string   `json:"nbits,omitempty"`   // ExportBinaryNBits(N)
	NErr    string   `json:"nerr,omitempty"`
	VBin    string   `json:"vbin,omitempty"`    // ExportVerilogBinary
	VErr    string   `json:"verr,omitempty"`
	Variants []string `json:"variants,omitempty"` // distinct (type,bits,bin) over repeated ImportString calls
}

func c08Import(s string) (typ string, bits int, bin string, err string) {
	defer func() {
		if r := recover(); r != nil {
			err = "panic"
		}
	}()
	n, e := bmnumbers.ImportString(s)
	if e != nil {
		return "", 0, "", "err"
	}
	b, e2 := n.ExportBinary(false)
	if e2 != nil {
		return "", 0, "", "experr"
	}
	wb, _ := n.ExportBinary(true) // "0b<bits>digits"
	nb := 0
	for i := 3; i < len(wb) && wb[i] != '>'; i++ {
		nb = nb*10 + int(wb[i]-'0')
	}
	return n.GetTypeName(), nb, b, ""
}

func init() {
	commands["c08"] = func(args []string) {
		fs := flag.NewFlagSet("c08", flag.ExitOnError)
		dump := fs.Bool("regexes", false, "dump the registered matchers")
		extra := fs.String("types", "", "comma separated dynamic type names to create first")
		ranges := fs.String("ranges", "", "linear quantizer ranges to load first: <index>,<file>[,<index>,<file>...]")
		fs.Parse(args)
		if *ranges != "" {
			if err := bmnumbers.LoadLinearDataRangesFromFile(*ranges); err != nil {
				panic(err)
			}
		}
		if *extra != "" {
			for _, t := range splitComma(*extra) {
				bmnumbers.EventuallyCreateType(t, nil)
			}
		}
		keys := []string{}
		for k := range bmnumbers.AllMatchers {
			keys = append(keys, k)
		}
		sort.Strings(keys)
		if *dump {
			emit(map[string]interface{}{"matchers": keys})
			return
		}
		compiled := map[string]*regexp.Regexp{}
		for _, k := range keys {
			compiled[k] = regexp.MustCompile(k)
		}
		sc := bufio.NewScanner(os.Stdin)
		sc.Buffer(make([]byte, 1<<20), 1<<26)
		for sc.Scan() {
			var q c08Req
			if err := json.Unmarshal(sc.Bytes(), &q); err != nil {
				panic(err)
			}
			r := c08Res{Op: q.Op, S: q.S}
			switch q.Op {
			case "match":
				re := compiled[q.Regex]
				if re == nil {
					re = regexp.MustCompile(q.Regex)
				}
				r.Match = re.MatchString(q.S)
			case "import":
				for _, k := range keys {
					if compiled[k].MatchString(q.S) {
						r.Matches = append(r.Matches, k)
					}
				}
				seen := map[string]bool{}
				for i := 0; i < 24; i++ { // ImportString ranges over a map: repeat to see every reading
					t, b, bin, e := c08Import(q.S)
					v := t + "/" + itoa(b) + "/" + bin + "/" + e
					if !seen[v] {
						seen[v] = true
						r.Variants = append(r.Variants, v)
					}
					if i == 0 {
						r.Type, r.Bits, r.Bin, r.Err = t, b, bin, e
					}
				}
				sort.Strings(r.Variants)
				if r.Err == "" {
					func() {
						defer func() {
							if rec := recover(); rec != nil {
								r.StrErr = "panic"
							}
						}()
						n, _ := bmnumbers.ImportString(q.S)
						if s, e := n.ExportString(nil); e != nil {
							r.StrErr = "err"
						} else {
							r.Str = s
							r.ReType, r.ReBits, r.Re, r.ReErr = c08Import(s)
						}
						if q.N > 0 {
							if s, e := n.ExportBinaryNBits(q.N); e != nil {
								r.NErr = "err"
							} else {
								r.NBits = s
							}
						}
						if s, e := n.ExportVerilogBinary(); e != nil {
							r.VErr = "err"
						} else {
							r.VBin = s
						}
					}()
				}
			}
			emit(r)
		}
	}
}

func splitComma(s string) []string {
	out := []string{}
	cur := ""
	for _, c := range s {
		if c == ',' {
			if cur != "" {
				out = append(out, cur)
			}
			cur = ""
		} else {
			cur += string(c)
		}
	}
	if cur != "" {
		out = append(out, cur)
	}
	return out
}

func itoa(i int) string {
	b, _ := json.Marshal(i)
	return string(b)
}
