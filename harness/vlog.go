package main

import (
	"sync"
	"bufio"
	"encoding/json"
	"fmt"
	"os"
	"path/filepath"
	"runtime/debug"
	"sort"
	"strings"

	"github.com/BondMachineHQ/BondMachine/pkg/basm"
	"github.com/BondMachineHQ/BondMachine/pkg/bmconfig"
	"github.com/BondMachineHQ/BondMachine/pkg/bmreqs"
	"github.com/BondMachineHQ/BondMachine/pkg/bmstack"
	"github.com/BondMachineHQ/BondMachine/pkg/bondmachine"
	"github.com/BondMachineHQ/BondMachine/pkg/procbuilder"
	"github.com/BondMachineHQ/BondMachine/pkg/simbox"
)

// machine description used by several commands: either a BASM source or explicit processors
type bmSpec struct {
	JSON       string     `json:"json,omitempty"` // a machine file as a front-end wrote it
	Basm       string     `json:"basm,omitempty"`
	NoDynMatch bool       `json:"nodyn,omitempty"`
	Rsize      int        `json:"rsize,omitempty"`
	Procs      []procSpec `json:"procs,omitempty"`
	Inputs     int        `json:"inputs,omitempty"`
	Outputs    int        `json:"outputs,omitempty"`
	Bonds      [][2]string `json:"bonds,omitempty"`
	ProcOrder  []int      `json:"procorder,omitempty"`   // processor i runs domain ProcOrder[i] (default: processor i runs domain i)
	Shared     []string   `json:"shared,omitempty"`      // shared object strings
	SharedLinks [][2]int  `json:"sharedlinks,omitempty"` // (processor, shared object)
}

type procSpec struct {
	Arch     archSpec `json:"arch"`
	Prog     []string `json:"prog"`
	Threaded int      `json:"threaded,omitempty"`
}

// requirements of the last machine assembled from BASM (what 'basm -dump-requirements' writes); the hardware
// optimisations of the Verilog generator read them through Config.ReqRoot, as cmd/bondmachine -bmrequirements-file does
var lastReqs *bmreqs.ExportedReqs
var lastReqsMu sync.Mutex // buildBM is also called from concurrent simulations (c09, c17): the harness itself must be race free

func setLastReqs(r *bmreqs.ExportedReqs) {
	lastReqsMu.Lock()
	lastReqs = r
	lastReqsMu.Unlock()
}

func getLastReqs() *bmreqs.ExportedReqs {
	lastReqsMu.Lock()
	defer lastReqsMu.Unlock()
	return lastReqs
}

func buildBM(s *bmSpec) (bm *bondmachine.Bondmachine, err error) {
	setLastReqs(nil)
	defer func() {
		if r := recover(); r != nil {
			err = fmt.Errorf("panic: %v", r)
		}
	}()
	if s.JSON != "" {
		bmj := new(bondmachine.Bondmachine_json)
		if err = json.Unmarshal([]byte(s.JSON), bmj); err != nil {
			return nil, err
		}
		return bmj.Dejsoner(), nil
	}
	if s.Basm != "" {
		quiet(func() {
			bi := new(basm.BasmInstance)
			bi.BasmInstanceInit(nil)
			bi.Activate(bmconfig.ChooserMinWordSize)
			if s.NoDynMatch {
				bi.Activate(bmconfig.DisableDynamicalMatching)
			}
			if err = bi.ParseAssemblyStringDefault(s.Basm); err != nil {
				return
			}
			if err = bi.RunAssembler(); err != nil {
				return
			}
			if err = bi.Assembler2BondMachine(); err != nil {
				return
			}
			bm = bi.GetBondMachine()
			r := bi.DumpRequirements()
			setLastReqs(&r)
		})
		return
	}
	bm = new(bondmachine.Bondmachine)
	bm.Rsize = uint8(s.Rsize)
	bm.Init()
	for _, p := range s.Procs {
		a := p.Arch
		if a.Rsize == 0 {
			a.Rsize = s.Rsize
		}
		m, e := buildArch(&a)
		if e != nil {
			return nil, e
		}
		m.Arch.Conproc.Threaded = p.Threaded
		var prog procbuilder.Program
		quiet(func() { prog, e = m.Arch.Assembler([]byte(strings.Join(p.Prog, "\n") + "\n")) })
		if e != nil {
			return nil, e
		}
		m.Program = prog
		bm.Domains = append(bm.Domains, m)
		if len(s.ProcOrder) == 0 {
			bm.Add_processor(len(bm.Domains) - 1)
		}
	}
	for _, d := range s.ProcOrder {
		bm.Add_processor(d)
	}
	for i := 0; i < s.Inputs; i++ {
		bm.Add_input()
	}
	for i := 0; i < s.Outputs; i++ {
		bm.Add_output()
	}
	for _, b := range s.Bonds {
		bm.Add_bond([]string{b[0], b[1]})
	}
	if len(s.Shared) > 0 {
		bm.Add_shared_objects(s.Shared)
		if len(bm.Shared_objects) != len(s.Shared) {
			return nil, fmt.Errorf("shared object strings not accepted: %v", s.Shared)
		}
		for _, l := range s.SharedLinks {
			bm.Connect_processor_shared_object([]string{fmt.Sprint(l[0]), fmt.Sprint(l[1])})
		}
	}
	return bm, nil
}

type vlogReq struct {
	Kind   string           `json:"kind"` // "stack" | "bm"
	Stack  *bmstack.BmStack `json:"stack,omitempty"`
	BM     *bmSpec          `json:"bm,omitempty"`
	HwOpt  []string         `json:"hwopt,omitempty"`
	Flavor string           `json:"flavor,omitempty"`
}

type vlogRes struct {
	Err   string            `json:"err,omitempty"`
	Files map[string]string `json:"files,omitempty"`
	Order []string          `json:"order,omitempty"`
	JSON  json.RawMessage   `json:"bmjson,omitempty"`
}

func writeVerilogFiles(bm *bondmachine.Bondmachine, hwopt []string, flavor string) (files map[string]string, err error) {
	dir, e := os.MkdirTemp("", "bmh-vlog-")
	if e != nil {
		return nil, e
	}
	defer os.RemoveAll(dir)
	cwd, _ := os.Getwd()
	defer os.Chdir(cwd)
	os.Chdir(dir)
	conf := new(bondmachine.Config)
	for _, o := range hwopt {
		if id := procbuilder.HwOptimizationId(o); id != 0 {
			conf.HwOptimizations = procbuilder.SetHwOptimization(conf.HwOptimizations, id)
		}
	}
	if lr := getLastReqs(); len(hwopt) > 0 && lr != nil {
		if rg, e := bmreqs.Import(lr); e == nil {
			conf.ReqRoot = rg
		}
	}
	if flavor == "" {
		flavor = "iverilog"
	}
	func() {
		defer func() {
			if r := recover(); r != nil {
				err = fmt.Errorf("panic: %v", r)
				if os.Getenv("BMH_TRACE") != "" {
					fmt.Fprintf(os.Stderr, "%s\n", debug.Stack())
				}
			}
		}()
		iomap := new(bondmachine.IOmap)
		iomap.Assoc = map[string]string{}
		sb := new(simbox.Simbox)
		quiet(func() { err = bm.Write_verilog(conf, flavor, iomap, nil, sb) })
	}()
	files = map[string]string{}
	ents, _ := os.ReadDir(dir)
	for _, en := range ents {
		if b, e := os.ReadFile(filepath.Join(dir, en.Name())); e == nil {
			files[en.Name()] = string(b)
		}
	}
	return files, err
}

func init() {
	commands["vlog"] = func(args []string) {
		sc := bufio.NewScanner(os.Stdin)
		sc.Buffer(make([]byte, 1<<20), 1<<28)
		for sc.Scan() {
			var q vlogReq
			if err := json.Unmarshal(sc.Bytes(), &q); err != nil {
				panic(err)
			}
			r := vlogRes{}
			switch q.Kind {
			case "stack":
				s := bmstack.CreateBasicStack()
				s.ModuleName, s.DataSize, s.Depth = q.Stack.ModuleName, q.Stack.DataSize, q.Stack.Depth
				s.Senders, s.Receivers, s.MemType = q.Stack.Senders, q.Stack.Receivers, q.Stack.MemType
				txt, err := s.WriteHDL()
				if err != nil {
					r.Err = err.Error()
				}
				r.Files = map[string]string{s.ModuleName + ".v": txt}
			case "bm":
				bm, err := buildBM(q.BM)
				if err != nil {
					r.Err = "build: " + err.Error()
					break
				}
				files, err := writeVerilogFiles(bm, q.HwOpt, q.Flavor)
				if err != nil {
					r.Err = "write: " + err.Error()
				}
				r.Files = files
				if b, e := json.Marshal(bm.Jsoner()); e == nil {
					r.JSON = b
				}
			}
			for k := range r.Files {
				r.Order = append(r.Order, k)
			}
			sort.Strings(r.Order)
			emit(r)
		}
	}
}
