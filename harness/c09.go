package main

import (
	"bufio"
	"crypto/sha1"
	"encoding/hex"
	"encoding/json"
	"math/rand"
	"os"
	"runtime"
	"sync"
	"time"

	"github.com/BondMachineHQ/BondMachine/pkg/bondmachine"
)

type c09Req struct {
	Sim   simReq `json:"sim"`
	Perms int    `json:"perms"`
	Conc  int    `json:"conc"`
	Seed  int64  `json:"seed"`
	Procs []int  `json:"gomaxprocs"`
}

type c09Res struct {
	Err       string    `json:"err,omitempty"`
	Base      simRes    `json:"base"`
	Digests   []string  `json:"digests"`
	PermBad   []int     `json:"permbad"` // for every forced-order run: first differing tick or -1
	ConcBad   []int     `json:"concbad"` // for every concurrent run
	NProcs    int       `json:"nprocs"`
	Orders    [][]int   `json:"orders,omitempty"` // a sample of the forced orders
}

func digests(r simRes) []string {
	out := []string{}
	for _, t := range r.Ticks {
		b, _ := json.Marshal(t)
		h := sha1.Sum(b)
		out = append(out, hex.EncodeToString(h[:]))
	}
	return out
}

func firstDiff(a, b []string) int {
	for i := range a {
		if i >= len(b) || a[i] != b[i] {
			return i
		}
	}
	if len(b) != len(a) {
		return len(a)
	}
	return -1
}

var hookMu sync.Mutex

// run one simulation while forcing, at every tick, a seeded permutation of the processors' start order
func runForced(q *simReq, r *rand.Rand, nprocs int, sample *[][]int) simRes {
	hookMu.Lock()
	defer hookMu.Unlock()
	arrive := make(chan int, 64)
	release := make([]chan struct{}, nprocs)
	for i := range release {
		release[i] = make(chan struct{})
	}
	stop := make(chan struct{})
	bondmachine.VerifYieldHook = func(id int) {
		arrive <- id
		<-release[id]
	}
	go func() {
		for {
			waiting := map[int]bool{}
			for len(waiting) < nprocs {
				select {
				case id := <-arrive:
					waiting[id] = true
				case <-stop:
					return
				}
			}
			order := r.Perm(nprocs)
			if len(*sample) < 4 {
				*sample = append(*sample, order)
			}
			for _, id := range order {
				release[id] <- struct{}{}
				time.Sleep(30 * time.Microsecond) // let it run before the next one starts
				runtime.Gosched()
			}
		}
	}()
	res := runSim(q)
	close(stop)
	bondmachine.VerifYieldHook = nil
	return res
}

func init() {
	commands["c09"] = func(args []string) {
		sc := bufio.NewScanner(os.Stdin)
		sc.Buffer(make([]byte, 1<<20), 1<<28)
		for sc.Scan() {
			var q c09Req
			if err := json.Unmarshal(sc.Bytes(), &q); err != nil {
				panic(err)
			}
			out := c09Res{}
			out.Base = runSim(&q.Sim)
			if out.Base.Err != "" {
				out.Err = out.Base.Err
				emit(out)
				continue
			}
			out.Digests = digests(out.Base)
			out.NProcs = len(out.Base.ProcInfo)
			r := rand.New(rand.NewSource(q.Seed))
			gmp := q.Procs
			if len(gmp) == 0 {
				gmp = []int{runtime.GOMAXPROCS(0)}
			}
			for k := 0; k < q.Perms; k++ {
				old := runtime.GOMAXPROCS(gmp[k%len(gmp)])
				if out.NProcs > 0 {
					res := runForced(&q.Sim, r, out.NProcs, &out.Orders)
					out.PermBad = append(out.PermBad, firstDiff(out.Digests, digests(res)))
				}
				runtime.GOMAXPROCS(old)
			}
			// several simulations of the same machine at once, no hook
			if q.Conc > 0 {
				var wg sync.WaitGroup
				results := make([]simRes, q.Conc)
				for k := 0; k < q.Conc; k++ {
					wg.Add(1)
					go func(k int) {
						defer wg.Done()
						results[k] = runSim(&q.Sim)
					}(k)
				}
				wg.Wait()
				for k := 0; k < q.Conc; k++ {
					out.ConcBad = append(out.ConcBad, firstDiff(out.Digests, digests(results[k])))
				}
			}
			emit(out)
		}
	}
}
