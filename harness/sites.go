package main

// sites: every `range` over a map-typed operand, and every use of the clock / random source, in the
// given package directories (type-checked from source).  Output: one JSON object per site.

import (
	"bytes"
	"crypto/sha256"
	"encoding/hex"
	"go/ast"
	"go/printer"
	"go/importer"
	"go/parser"
	"go/token"
	"go/types"
	"os"
	"path/filepath"
	"sort"
	"strings"
)

type site struct {
	Kind string `json:"kind"` // "maprange" | "clock"
	Pkg  string `json:"pkg"`
	File string `json:"file"`
	Line int    `json:"line"`
	Func string `json:"func"`
	Expr string `json:"expr"`
	Hash string `json:"hash"` // maprange: fingerprint of the loop as written (header and body, formatted by go/printer)
}

func init() {
	commands["sites"] = func(args []string) {
		fset := token.NewFileSet()
		imp := importer.ForCompiler(fset, "source", nil)
		out := []site{}
		for _, dir := range args {
			pkgs, err := parser.ParseDir(fset, dir, func(fi os.FileInfo) bool { return !strings.HasSuffix(fi.Name(), "_test.go") }, 0)
			if err != nil {
				panic(err)
			}
			for _, pkg := range pkgs {
				files := []*ast.File{}
				for _, f := range pkg.Files {
					files = append(files, f)
				}
				info := &types.Info{Types: map[ast.Expr]types.TypeAndValue{}, Uses: map[*ast.Ident]types.Object{}}
				conf := types.Config{Importer: imp, Error: func(err error) {}}
				conf.Check(dir, fset, files, info)
				for _, f := range files {
					fn := ""
					ast.Inspect(f, func(n ast.Node) bool {
						switch x := n.(type) {
						case *ast.FuncDecl:
							fn = x.Name.Name
							if x.Recv != nil && len(x.Recv.List) > 0 {
								fn = types.ExprString(x.Recv.List[0].Type) + "." + fn
							}
						case *ast.RangeStmt:
							if tv, ok := info.Types[x.X]; ok && tv.Type != nil {
								if _, ok := tv.Type.Underlying().(*types.Map); ok {
									p := fset.Position(x.Pos())
									var buf bytes.Buffer
									printer.Fprint(&buf, fset, x)
									sum := sha256.Sum256(buf.Bytes())
									out = append(out, site{"maprange", dir, filepath.Base(p.Filename), p.Line, fn, types.ExprString(x.X), hex.EncodeToString(sum[:8])})
								}
							}
						case *ast.SelectorExpr:
							if id, ok := x.X.(*ast.Ident); ok {
								if pn, ok := info.Uses[id].(*types.PkgName); ok {
									path := pn.Imported().Path()
									if (path == "time" && (x.Sel.Name == "Now" || x.Sel.Name == "Since")) || path == "math/rand" || path == "crypto/rand" {
										p := fset.Position(x.Pos())
										out = append(out, site{"clock", dir, filepath.Base(p.Filename), p.Line, fn, path + "." + x.Sel.Name, ""})
									}
								}
							}
						}
						return true
					})
				}
			}
		}
		sort.Slice(out, func(i, j int) bool {
			if out[i].Pkg != out[j].Pkg {
				return out[i].Pkg < out[j].Pkg
			}
			if out[i].File != out[j].File {
				return out[i].File < out[j].File
			}
			return out[i].Line < out[j].Line
		})
		for _, s := range out {
			emit(s)
		}
	}
}
