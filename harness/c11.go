package main

// c11: save / reload of machines.
//   bmh c11 save   : one bmSpec per line -> original machine: JSON bytes, field dump, Verilog hashes, simulation digest
//   bmh c11 load   : one {"json": ...} per line (fresh process) -> the same observables for the reloaded machine,
//                    plus the opcode registry before loading and what each name resolves to

import (
	"bufio"
	"crypto/sha256"
	"encoding/hex"
	"encoding/json"
	"fmt"
	"os"
	"reflect"
	"regexp"
	"sort"

	"github.com/BondMachineHQ/BondMachine/pkg/bondmachine"
	"github.com/BondMachineHQ/BondMachine/pkg/procbuilder"
)

var ptrRe = regexp.MustCompile(`\(0x[0-9a-f]+\)`)

// identity of a Go value: type and contents with pointer addresses removed, hashed to 60 bits
func valueID(v interface{}) string {
	if v == nil {
		return "0"
	}
	s := ptrRe.ReplaceAllString(fmt.Sprintf("%T %#v", v, v), "(ptr)")
	h := sha256.Sum256([]byte(s))
	var n uint64
	for i := 0; i < 8; i++ {
		n = n<<8 | uint64(h[i])
	}
	return fmt.Sprint(n >> 4)
}

var opcodeType = reflect.TypeOf((*procbuilder.Opcode)(nil)).Elem()
var sinstType = reflect.TypeOf((*bondmachine.Shared_instance)(nil)).Elem()

// generic dump: every field of the struct (embedded structs flattened), opcodes and shared
// instances as {name,id} / {str,id}, nil slices as empty lists
func dumpValue(v reflect.Value) interface{} {
	switch v.Kind() {
	case reflect.Interface:
		if v.IsNil() {
			return nil
		}
		if v.Type() == opcodeType {
			op := v.Interface().(procbuilder.Opcode)
			return map[string]interface{}{"name": op.Op_get_name(), "id": valueID(op)}
		}
		if v.Type() == sinstType {
			si := v.Interface().(bondmachine.Shared_instance)
			return map[string]interface{}{"str": si.String(), "id": valueID(si)}
		}
		return dumpValue(v.Elem())
	case reflect.Ptr:
		if v.IsNil() {
			return nil
		}
		return dumpValue(v.Elem())
	case reflect.Struct:
		out := map[string]interface{}{}
		dumpStructInto(v, out)
		return out
	case reflect.Slice, reflect.Array:
		out := make([]interface{}, v.Len())
		for i := 0; i < v.Len(); i++ {
			out[i] = dumpValue(v.Index(i))
		}
		return out
	case reflect.Int, reflect.Int8, reflect.Int16, reflect.Int32, reflect.Int64:
		return v.Int()
	case reflect.Uint, reflect.Uint8, reflect.Uint16, reflect.Uint32, reflect.Uint64:
		return v.Uint()
	case reflect.String:
		return v.String()
	case reflect.Bool:
		return v.Bool()
	}
	return fmt.Sprintf("<%s>", v.Kind())
}

func dumpStructInto(v reflect.Value, out map[string]interface{}) {
	t := v.Type()
	for i := 0; i < t.NumField(); i++ {
		f := t.Field(i)
		if f.Anonymous && f.Type.Kind() == reflect.Struct {
			dumpStructInto(v.Field(i), out)
			continue
		}
		if f.PkgPath != "" { // unexported
			continue
		}
		out[f.Name] = dumpValue(v.Field(i))
	}
}

type c11Obs struct {
	Err      string                 `json:"err,omitempty"`
	JSON     string                 `json:"json,omitempty"`
	Dump     interface{}            `json:"dump,omitempty"`
	VErr     string                 `json:"verr,omitempty"`
	VFiles   map[string]string      `json:"vfiles,omitempty"` // name -> sha256
	VText    map[string]string      `json:"vtext,omitempty"`
	SimErr   string                 `json:"simerr,omitempty"`
	Sim      string                 `json:"sim,omitempty"`
	Registry []map[string]string    `json:"registry,omitempty"` // opcodes registered before loading
	Resolve  map[string]interface{} `json:"resolve,omitempty"`  // name -> {name,id} | null, after loading
	Dyn      map[string]interface{} `json:"dyn,omitempty"`      // name -> created opcode | null
	Inst     map[string]interface{} `json:"inst,omitempty"`     // shared string -> {str,id} | null
}

func simDigest(bm *bondmachine.Bondmachine, ticks int) (dig string, e string) {
	defer func() {
		if r := recover(); r != nil {
			e = fmt.Sprintf("panic: %v", r)
		}
	}()
	vm := new(bondmachine.VM)
	vm.Bmach = bm
	if err := vm.Init(); err != nil {
		return "", "init: " + err.Error()
	}
	vm.Launch_processors(nil)
	defer vm.Stop()
	h := sha256.New()
	for t := 0; t < ticks; t++ {
		for i := range vm.Inputs_regs {
			vm.Inputs_regs[i] = typed(bm.Rsize, uint64(t*7+i))
			vm.InputsValid[i] = t%3 != 0
		}
		for o := range vm.OutputsRecv {
			vm.OutputsRecv[o] = vm.OutputsValid[o]
		}
		var serr error
		quiet(func() { _, serr = vm.Step(nil) })
		if serr != nil {
			return "", "step: " + serr.Error()
		}
		b, _ := json.Marshal(simSnapshot(vm, true))
		h.Write(b)
	}
	return hex.EncodeToString(h.Sum(nil))[:24], ""
}

func observe(bm *bondmachine.Bondmachine, o *c11Obs, text bool) {
	func() {
		defer func() {
			if r := recover(); r != nil {
				o.Err = fmt.Sprintf("jsoner panic: %v", r)
			}
		}()
		if b, e := json.Marshal(bm.Jsoner()); e == nil {
			o.JSON = string(b)
		} else {
			o.Err = "marshal: " + e.Error()
		}
	}()
	o.Dump = dumpValue(reflect.ValueOf(bm))
	files, err := writeVerilogFiles(bm, nil, "iverilog")
	if err != nil {
		o.VErr = err.Error()
	}
	o.VFiles = map[string]string{}
	for k, v := range files {
		h := sha256.Sum256([]byte(v))
		o.VFiles[k] = hex.EncodeToString(h[:])[:24]
	}
	if text {
		o.VText = files
	}
	o.Sim, o.SimErr = simDigest(bm, 40)
}

func opInfo(op procbuilder.Opcode) interface{} {
	if op == nil {
		return nil
	}
	return map[string]interface{}{"name": op.Op_get_name(), "id": valueID(op)}
}

func init() {
	commands["c11"] = func(args []string) {
		sc := bufio.NewScanner(os.Stdin)
		sc.Buffer(make([]byte, 1<<20), 1<<28)
		mode := "save"
		if len(args) > 0 {
			mode = args[0]
		}
		for sc.Scan() {
			o := c11Obs{}
			switch mode {
			case "save":
				var q struct {
					BM   bmSpec `json:"bm"`
					Text bool   `json:"text"`
				}
				if err := json.Unmarshal(sc.Bytes(), &q); err != nil {
					panic(err)
				}
				bm, err := buildBM(&q.BM)
				if err != nil {
					o.Err = "build: " + err.Error()
					break
				}
				observe(bm, &o, q.Text)
			case "load":
				var q struct {
					JSON string `json:"json"`
					Text bool            `json:"text"`
				}
				if err := json.Unmarshal(sc.Bytes(), &q); err != nil {
					panic(err)
				}
				for _, op := range procbuilder.Allopcodes {
					o.Registry = append(o.Registry, map[string]string{"name": op.Op_get_name(), "id": valueID(op)})
				}
				bmj := new(bondmachine.Bondmachine_json)
				if err := json.Unmarshal([]byte(q.JSON), bmj); err != nil {
					o.Err = "unmarshal: " + err.Error()
					break
				}
				// what each dynamic family would create for the names in this file, on a scratch registry
				o.Dyn = map[string]interface{}{}
				o.Inst = map[string]interface{}{}
				names := map[string]bool{}
				for _, d := range bmj.Domains {
					if d != nil {
						for _, n := range d.Op {
							names[n] = true
						}
					}
				}
				for n := range names {
					var created procbuilder.Opcode
					for _, dyn := range procbuilder.AllDynamicalInstructions {
						if dyn.MatchName(n) {
							if op, err := dyn.CreateInstruction(n); err == nil {
								created = op
							}
							break
						}
					}
					o.Dyn[n] = opInfo(created)
				}
				for _, s := range bmj.Shared_objects {
					var got interface{}
					for _, shr := range bondmachine.Allshared {
						if inst, ok := shr.Instantiate(s); ok {
							got = map[string]interface{}{"str": inst.String(), "id": valueID(inst)}
							break
						}
					}
					o.Inst[s] = got
				}
				var bm *bondmachine.Bondmachine
				func() {
					defer func() {
						if r := recover(); r != nil {
							o.Err = fmt.Sprintf("dejsoner panic: %v", r)
						}
					}()
					bm = bmj.Dejsoner()
				}()
				if bm == nil {
					break
				}
				o.Resolve = map[string]interface{}{}
				for n := range names {
					var found procbuilder.Opcode
					for _, op := range procbuilder.Allopcodes {
						if op.Op_get_name() == n {
							found = op
						}
					}
					o.Resolve[n] = opInfo(found)
				}
				observe(bm, &o, q.Text)
			}
			emit(o)
		}
	}
	_ = sort.Strings
}
