package main

import (
	"strconv"
	"bufio"
	"encoding/json"
	"os"
	"regexp"
	"runtime"
	"runtime/pprof"
	"sort"
	"strings"
	"sync"
	"time"

	"github.com/BondMachineHQ/BondMachine/pkg/basm"
	"github.com/BondMachineHQ/BondMachine/pkg/bmconfig"
	"github.com/BondMachineHQ/BondMachine/pkg/bmreqs"
	"github.com/BondMachineHQ/BondMachine/pkg/simbox"
)

type c17Req struct {
	BM    bmSpec   `json:"bm"`
	Call  string   `json:"call"` // single | fitness | assemble
	N     int      `json:"n"`
	Conc  int      `json:"conc"` // 0/1 sequential, >1 that many goroutines sharing the n calls
	Input []string `json:"input"`
	Basm  string   `json:"basm,omitempty"`
	// single: the data type the outputs are shown in (default unsigned); an unknown type makes the call fail while it reports
	DataType string `json:"datatype,omitempty"`
	// fitness: the object the expectation names (default o0); an object the machine does not have makes the call fail early
	ExpObj string `json:"expobj,omitempty"`
	// opcode -> delay in clocks -> probability; one SimDelays object is built from it and shared by all the calls
	Delays map[string]map[string]float32 `json:"delays,omitempty"`
	// no warm-up call: the first calls this process makes are the concurrent ones (lazily initialised package state is still cold)
	Cold bool `json:"cold,omitempty"`
}

type c17Res struct {
	Err     string         `json:"err,omitempty"`
	Before  int            `json:"before"`
	After   int            `json:"after"`
	Growth  map[string]int `json:"growth"` // goroutines after-before grouped by function
	Results []string       `json:"results,omitempty"`
	Distinct []string      `json:"distinct,omitempty"` // distinct results over all calls (at most 6 kept)
	HeapBefore uint64      `json:"heapbefore"`
	HeapAfter  uint64      `json:"heapafter"`
}

func noteDistinct(res *c17Res, r string) {
	for _, d := range res.Distinct {
		if d == r {
			return
		}
	}
	if len(res.Distinct) < 6 {
		res.Distinct = append(res.Distinct, r)
	}
}

var fnRe = regexp.MustCompile(`(?m)^#\s+0x[0-9a-f]+\s+(\S+)\+0x`)

func goroutineTops() map[string]int {
	var sb strings.Builder
	pprof.Lookup("goroutine").WriteTo(&sb, 1)
	out := map[string]int{}
	txt := sb.String()
	if i := strings.Index(txt, "\n"); i >= 0 && strings.HasPrefix(txt, "goroutine profile:") {
		txt = txt[i+1:]
	}
	for _, blk := range strings.Split(txt, "\n\n") {
		lines := strings.Split(blk, "\n")
		if len(lines) == 0 {
			continue
		}
		var cnt int
		if _, err := sscanCount(lines[0], &cnt); err != nil || cnt == 0 {
			continue
		}
		// first frame inside the BondMachine module (else the outermost frame)
		fns := fnRe.FindAllStringSubmatch(blk, -1)
		name := ""
		for _, f := range fns {
			if strings.Contains(f[1], "BondMachineHQ/BondMachine") {
				name = f[1]
				break
			}
		}
		if name == "" && len(fns) > 0 {
			name = fns[len(fns)-1][1]
		}
		out[name] += cnt
	}
	return out
}

func sscanCount(line string, cnt *int) (int, error) {
	// "N @ 0x..." header of the debug=1 goroutine profile
	n := 0
	i := 0
	for i < len(line) && line[i] >= '0' && line[i] <= '9' {
		n = n*10 + int(line[i]-'0')
		i++
	}
	if i == 0 || !strings.HasPrefix(line[i:], " @") {
		return 0, os.ErrInvalid
	}
	*cnt = n
	return 1, nil
}

func settle() {
	for i := 0; i < 5; i++ {
		runtime.GC()
		time.Sleep(20 * time.Millisecond)
	}
}

func init() {
	commands["c17"] = func(args []string) {
		// the library prints from several goroutines: silence stdout for the whole command
		if dn, err := os.OpenFile(os.DevNull, os.O_WRONLY, 0); err == nil {
			os.Stdout = dn
		}
		sc := bufio.NewScanner(os.Stdin)
		sc.Buffer(make([]byte, 1<<20), 1<<28)
		for sc.Scan() {
			var q c17Req
			if err := json.Unmarshal(sc.Bytes(), &q); err != nil {
				panic(err)
			}
			res := c17Res{Growth: map[string]int{}}
			bm, err := buildBM(&q.BM)
			if err != nil && q.Call != "assemble" && q.Call != "reqroot" {
				res.Err = "build: " + err.Error()
				emit(res)
				continue
			}
			var sd *simbox.SimDelays
			if q.Delays != nil {
				sd = simbox.NewSimDelays()
				for op, dist := range q.Delays {
					dd := simbox.DelayDistribution{}
					for d, p := range dist {
						n, _ := strconv.Atoi(d)
						dd[int32(n)] = p
					}
					sd.OpcodeDelays[op] = dd
				}
			}
			one := func() string {
				switch q.Call {
				case "single":
					var out []string
					var e error
					dt := q.DataType
					if dt == "" {
						dt = "unsigned"
					}
					out, e = bm.SinglePipelineSimulate(dt, q.Input, sd)
					if e != nil {
						return "err:" + e.Error()
					}
					return strings.Join(out, ",")
				case "fitness":
					in := new(simbox.Simbox)
					exp := new(simbox.Simbox)
					in.Rules = []simbox.Rule{}
					exp.Rules = []simbox.Rule{}
					for i, v := range q.Input {
						in.Add("absolute:0:set:i" + itoa(i) + ":" + v)
					}
					obj := q.ExpObj
					if obj == "" {
						obj = "o0"
					}
					exp.Add("absolute:10:set:" + obj + ":0")
					var e error
					_, e = bm.Fitness_default(in, exp, 20)
					if e != nil {
						return "err:" + e.Error()
					}
					return "ok"
				case "reqroot":
					// a requirement engine that is created and closed again
					rg := bmreqs.NewReqRoot()
					rg.Close()
					return "ok"
				case "assemble":
					r := ""
					func() {
						bi := new(basm.BasmInstance)
						bi.BasmInstanceInit(nil)
						bi.Activate(bmconfig.ChooserMinWordSize)
						if e := bi.ParseAssemblyStringDefault(q.Basm); e != nil {
							r = "err:" + e.Error()
							return
						}
						if e := bi.RunAssembler(); e != nil {
							r = "err:" + e.Error()
							return
						}
						if e := bi.Assembler2BondMachine(); e != nil {
							r = "err:" + e.Error()
							return
						}
						r = "ok"
					}()
					return r
				}
				return "?"
			}
			// warm up once so that lazily started runtime goroutines are not counted
			if !q.Cold {
				one()
			}
			settle()
			beforeTops := goroutineTops()
			res.Before = runtime.NumGoroutine()
			var ms runtime.MemStats
			runtime.ReadMemStats(&ms)
			res.HeapBefore = ms.HeapAlloc
			if q.Conc > 1 {
				var wg sync.WaitGroup
				var mu sync.Mutex
				per := (q.N + q.Conc - 1) / q.Conc
				for g := 0; g < q.Conc; g++ {
					wg.Add(1)
					go func() {
						defer wg.Done()
						for k := 0; k < per; k++ {
							r := one()
							mu.Lock()
							noteDistinct(&res, r)
							if len(res.Results) < 3 {
								res.Results = append(res.Results, r)
							}
							mu.Unlock()
						}
					}()
				}
				wg.Wait()
			} else {
				for k := 0; k < q.N; k++ {
					r := one()
					noteDistinct(&res, r)
					if k < 3 {
						res.Results = append(res.Results, r)
					}
				}
			}
			settle()
			res.After = runtime.NumGoroutine()
			runtime.ReadMemStats(&ms)
			res.HeapAfter = ms.HeapAlloc
			afterTops := goroutineTops()
			keys := []string{}
			for k := range afterTops {
				keys = append(keys, k)
			}
			sort.Strings(keys)
			for _, k := range keys {
				if d := afterTops[k] - beforeTops[k]; d != 0 {
					res.Growth[k] = d
				}
			}
			emit(res)
		}
	}
}
