package main

// c16: load a bondmachine JSON (as written by a front-end) and describe it for the validator

import (
	"bufio"
	"encoding/json"
	"fmt"
	"os"

	"github.com/BondMachineHQ/BondMachine/pkg/bondmachine"
)

type c16Dom struct {
	Rsize, R, N, M, L, O, WordSize int
	Mode                          string
	Shared                        string // Shared_constraints
	Ops                           []string
	Rom                           []string
	Data                          []string
}

type c16Res struct {
	Err   string    `json:"err,omitempty"`
	Rsize int       `json:"rsize"`
	Doms  []c16Dom  `json:"doms"`
	Topo  *c10State `json:"topo,omitempty"`
}

func init() {
	commands["c16"] = func(args []string) {
		sc := bufio.NewScanner(os.Stdin)
		sc.Buffer(make([]byte, 1<<20), 1<<28)
		for sc.Scan() {
			var q struct {
				JSON string `json:"json"`
			}
			if err := json.Unmarshal(sc.Bytes(), &q); err != nil {
				panic(err)
			}
			r := c16Res{}
			func() {
				defer func() {
					if e := recover(); e != nil {
						r.Err = fmt.Sprint(e)
					}
				}()
				bmj := new(bondmachine.Bondmachine_json)
				if err := json.Unmarshal([]byte(q.JSON), bmj); err != nil {
					r.Err = "unmarshal: " + err.Error()
					return
				}
				bm := bmj.Dejsoner()
				r.Rsize = int(bm.Rsize)
				for _, d := range bm.Domains {
					cd := c16Dom{Rsize: int(d.Rsize), R: int(d.R), N: int(d.N), M: int(d.M), L: int(d.L), O: int(d.O), WordSize: int(d.WordSize), Shared: d.Shared_constraints}
					if len(d.Modes) > 0 {
						cd.Mode = d.Modes[0]
					}
					for _, op := range d.Op {
						if op == nil {
							cd.Ops = append(cd.Ops, "<nil>")
						} else {
							cd.Ops = append(cd.Ops, op.Op_get_name())
						}
					}
					cd.Rom = append(cd.Rom, d.Slocs...)
					cd.Data = append(cd.Data, d.Vars...)
					r.Doms = append(r.Doms, cd)
				}
				ts := c10Snapshot(bm, "done")
				r.Topo = &ts
			}()
			emit(r)
		}
	}
}
