package main

// c14: drive bmqsim.QasmToBmMatrices / RunSoftwareSimulation on a circuit given as lines

import (
	"bufio"
	"encoding/json"
	"fmt"
	"os"
	"strings"
	"time"

	"github.com/BondMachineHQ/BondMachine/pkg/bmline"
	"github.com/BondMachineHQ/BondMachine/pkg/bmmatrix"
	"github.com/BondMachineHQ/BondMachine/pkg/bmqsim"
)

type c14Req struct {
	N     int        `json:"n"`
	Lines [][]string `json:"lines"` // op, args...
	Sim   bool       `json:"sim"`
}

type c14Res struct {
	Err      string           `json:"err,omitempty"`
	Panic    string           `json:"panic,omitempty"`
	Timeout  bool             `json:"timeout,omitempty"`
	Matrices [][][][2]float32 `json:"matrices,omitempty"`
	SimOut   [][][2]float32   `json:"simout,omitempty"` // output state for each basis input
	SimErr   string           `json:"simerr,omitempty"`
}

func c14Run(q *c14Req) (r c14Res) {
	defer func() {
		if e := recover(); e != nil {
			r.Panic = fmt.Sprint(e)
		}
	}()
	sim := new(bmqsim.BmQSimulator)
	sim.BmQSimulatorInit()
	body := new(bmline.BasmBody)
	names := make([]string, q.N)
	for i := range names {
		names[i] = fmt.Sprintf("q%d", i)
	}
	body.BasmMeta = body.SetMeta("qbits", strings.Join(names, ":"))
	for _, l := range q.Lines {
		bl, err := bmline.Text2BasmLine(strings.Join(l, "::"))
		if err != nil {
			r.Err = err.Error()
			return
		}
		body.Lines = append(body.Lines, bl)
	}
	ms, err := sim.QasmToBmMatrices(body)
	if err != nil {
		r.Err = err.Error()
		return
	}
	for _, m := range ms {
		rows := make([][][2]float32, m.N)
		for i := 0; i < m.N; i++ {
			rows[i] = make([][2]float32, m.N)
			for j := 0; j < m.N; j++ {
				rows[i][j] = [2]float32{m.Data[i][j].Real, m.Data[i][j].Imag}
			}
		}
		r.Matrices = append(r.Matrices, rows)
	}
	if q.Sim {
		sim.Mtx = ms
		dim := 1 << q.N
		for b := 0; b < dim; b++ {
			v := make([]bmmatrix.Complex32, dim)
			v[b] = bmmatrix.Complex32{Real: 1}
			sim.Inputs = append(sim.Inputs, bmqsim.StateArray{Vector: v})
		}
		if err := sim.RunSoftwareSimulation(); err != nil {
			r.SimErr = err.Error()
		} else {
			for _, o := range sim.Outputs {
				row := make([][2]float32, len(o.Vector))
				for i, c := range o.Vector {
					row[i] = [2]float32{c.Real, c.Imag}
				}
				r.SimOut = append(r.SimOut, row)
			}
		}
	}
	return
}

func init() {
	commands["c14"] = func(args []string) {
		sc := bufio.NewScanner(os.Stdin)
		sc.Buffer(make([]byte, 1<<20), 1<<28)
		for sc.Scan() {
			var q c14Req
			if err := json.Unmarshal(sc.Bytes(), &q); err != nil {
				panic(err)
			}
			done := make(chan c14Res, 1)
			go func() { done <- c14Run(&q) }()
			select {
			case r := <-done:
				emit(r)
			case <-time.After(20 * time.Second):
				emit(c14Res{Timeout: true})
			}
		}
	}
}
