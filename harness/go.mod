module bmh

go 1.23.3

require github.com/BondMachineHQ/BondMachine v0.0.0

require (
	github.com/llir/ll v0.0.0-20220802044011-65001c0fb73c // indirect
	github.com/llir/llvm v0.3.6 // indirect
	github.com/mdlayher/packet v0.0.0-20220221164757-67998ac0ff93 // indirect
	github.com/mdlayher/raw v0.1.0 // indirect
	github.com/mdlayher/socket v0.2.1 // indirect
	github.com/mewmew/float v0.0.0-20201204173432-505706aa38fa // indirect
	github.com/mmirko/mel v0.0.0-20250221224538-07744443e851 // indirect
	github.com/pkg/errors v0.9.1 // indirect
	github.com/x448/float16 v0.8.4 // indirect
	golang.org/x/exp v0.0.0-20250408133849-7e4ce0ab07d0 // indirect
	golang.org/x/net v0.39.0 // indirect
	golang.org/x/sync v0.13.0 // indirect
	golang.org/x/sys v0.32.0 // indirect
	google.golang.org/protobuf v1.36.6 // indirect
)

replace github.com/BondMachineHQ/BondMachine => /repo
