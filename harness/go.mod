module bmh

go 1.23.3

require github.com/BondMachineHQ/BondMachine v0.0.0

require (
	github.com/mdlayher/packet v0.0.0-20220221164757-67998ac0ff93 // indirect
	github.com/mdlayher/raw v0.1.0 // indirect
	github.com/mdlayher/socket v0.2.1 // indirect
	github.com/mmirko/mel v0.0.0-20250221224538-07744443e851 // indirect
	github.com/x448/float16 v0.8.4 // indirect
	golang.org/x/net v0.39.0 // indirect
	golang.org/x/sync v0.13.0 // indirect
	golang.org/x/sys v0.32.0 // indirect
	google.golang.org/protobuf v1.36.6 // indirect
)

replace github.com/BondMachineHQ/BondMachine => /repo
