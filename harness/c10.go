package main

import (
	"bufio"
	"encoding/json"
	"flag"
	"fmt"
	"math/rand"
	"os"
	"sort"
	"strconv"

	"github.com/BondMachineHQ/BondMachine/pkg/bondmachine"
	"github.com/BondMachineHQ/BondMachine/pkg/procbuilder"
)

type c10Op struct {
	Op string `json:"op"`
	I  int    `json:"i,omitempty"`
	A  string `json:"a,omitempty"`
	B  string `json:"b,omitempty"`
	V2 bool   `json:"v2,omitempty"`
}

type c10State struct {
	Outcome string     `json:"outcome"`
	Inputs  int        `json:"inputs"`
	Outputs int        `json:"outputs"`
	Doms    [][2]int   `json:"doms"`
	Procs   []int      `json:"procs"`
	Iin     [][3]int   `json:"iin"`
	Iout    [][3]int   `json:"iout"`
	Links   []int      `json:"links"`
	Bonds   [][2]string `json:"bonds"` // from List_bonds(): "out,in" keyed by link index
	LIn     []string   `json:"lin"`
	LOut    []string   `json:"lout"`
}

type c10Case struct {
	Case   int        `json:"case"`
	Seed   int64      `json:"seed"`
	Doms   [][2]int   `json:"doms"`
	Ops    []c10Op    `json:"ops"`
	States []c10State `json:"states,omitempty"`
}

func c10Snapshot(bm *bondmachine.Bondmachine, outcome string) c10State {
	s := c10State{Outcome: outcome, Inputs: bm.Inputs, Outputs: bm.Outputs}
	for _, d := range bm.Domains {
		s.Doms = append(s.Doms, [2]int{int(d.N), int(d.M)})
	}
	s.Procs = append([]int{}, bm.Processors...)
	for _, b := range bm.Internal_inputs {
		s.Iin = append(s.Iin, [3]int{int(b.Map_to), b.Res_id, b.Ext_id})
	}
	for _, b := range bm.Internal_outputs {
		s.Iout = append(s.Iout, [3]int{int(b.Map_to), b.Res_id, b.Ext_id})
	}
	s.Links = append([]int{}, bm.Links...)
	func() {
		defer func() {
			if r := recover(); r != nil {
				s.Bonds = [][2]string{{"panic", fmt.Sprint(r)}}
			}
		}()
		lb := bm.List_bonds()
		keys := []int{}
		for k := range lb {
			keys = append(keys, k)
		}
		sort.Ints(keys)
		for _, k := range keys {
			s.Bonds = append(s.Bonds, [2]string{strconv.Itoa(k), lb[k]})
		}
		s.LIn = bm.List_internal_inputs()
		s.LOut = bm.List_internal_outputs()
	}()
	return s
}

func c10Apply(bm *bondmachine.Bondmachine, o c10Op) (outcome string) {
	defer func() {
		if r := recover(); r != nil {
			outcome = "panic"
		}
	}()
	var err error
	quiet(func() {
		switch o.Op {
		case "AddInput":
			_, err = bm.Add_input()
		case "DelInput":
			err = bm.Del_input(o.I)
		case "AddOutput":
			_, err = bm.Add_output()
		case "DelOutput":
			err = bm.Del_output(o.I)
		case "AddProc":
			_, err = bm.Add_processor(o.I)
		case "AddBond":
			bm.Add_bond([]string{o.A, o.B})
		case "DelBond":
			err = bm.Del_bond(o.I)
		case "AttachBench":
			if o.V2 {
				err = bm.AttachBenchmarkCoreV2([]string{o.A, o.B})
			} else {
				err = bm.Attach_benchmark_core([]string{o.A, o.B})
			}
		default:
			panic("unknown op " + o.Op)
		}
	})
	if err != nil {
		return "err"
	}
	return "done"
}

func c10NewBM(doms [][2]int) *bondmachine.Bondmachine {
	bm := new(bondmachine.Bondmachine)
	bm.Rsize = 8
	for _, d := range doms {
		m := new(procbuilder.Machine)
		m.Arch.Rsize = 8
		m.Arch.N = uint8(d[0])
		m.Arch.M = uint8(d[1])
		bm.Domains = append(bm.Domains, m)
	}
	bm.Init()
	return bm
}

func c10Run(c *c10Case) {
	bm := c10NewBM(c.Doms)
	c.States = nil
	for _, o := range c.Ops {
		oc := c10Apply(bm, o)
		c.States = append(c.States, c10Snapshot(bm, oc))
	}
}

// generator: mostly valid edits, biased towards deleting ports that have bonds above them
func c10Gen(r *rand.Rand, maxlen int) *c10Case {
	c := &c10Case{}
	nd := 1 + r.Intn(4)
	for i := 0; i < nd; i++ {
		c.Doms = append(c.Doms, [2]int{r.Intn(4), r.Intn(4)})
	}
	bm := c10NewBM(c.Doms)
	n := 1 + r.Intn(maxlen)
	junk := []string{"", "x", "p0", "i", "o", "p0i", "pio", "i-1", "p-1i0", "q0i0", "i00", "p0i0 ", "P0I0", "i0,o0"}
	pickIn := func() string {
		if len(bm.Internal_inputs) == 0 || r.Intn(12) == 0 {
			switch r.Intn(3) {
			case 0:
				return junk[r.Intn(len(junk))]
			case 1:
				return "o" + strconv.Itoa(bm.Outputs+r.Intn(2))
			default:
				return "p" + strconv.Itoa(r.Intn(len(bm.Processors)+2)) + "i" + strconv.Itoa(r.Intn(5))
			}
		}
		return bm.Internal_inputs[r.Intn(len(bm.Internal_inputs))].String()
	}
	pickOut := func() string {
		if len(bm.Internal_outputs) == 0 || r.Intn(12) == 0 {
			switch r.Intn(3) {
			case 0:
				return junk[r.Intn(len(junk))]
			case 1:
				return "i" + strconv.Itoa(bm.Inputs+r.Intn(2))
			default:
				return "p" + strconv.Itoa(r.Intn(len(bm.Processors)+2)) + "o" + strconv.Itoa(r.Intn(5))
			}
		}
		return bm.Internal_outputs[r.Intn(len(bm.Internal_outputs))].String()
	}
	idx := func(limit int) int {
		switch x := r.Intn(20); {
		case x == 0:
			return -1 - r.Intn(3)
		case x == 1:
			return limit + r.Intn(3)
		case limit <= 0:
			return 0
		case x < 10 && limit > 1: // low/middle ports: something is above them
			return r.Intn((limit + 1) / 2)
		default:
			return r.Intn(limit)
		}
	}
	for len(c.Ops) < n {
		var o c10Op
		switch x := r.Intn(100); {
		case x < 10:
			o = c10Op{Op: "AddInput"}
		case x < 20:
			o = c10Op{Op: "AddOutput"}
		case x < 34:
			o = c10Op{Op: "AddProc", I: idx(len(bm.Domains))}
		case x < 62:
			a, b := pickIn(), pickOut()
			if r.Intn(2) == 0 {
				a, b = b, a
			}
			if r.Intn(25) == 0 {
				b = a
			}
			o = c10Op{Op: "AddBond", A: a, B: b}
		case x < 72:
			o = c10Op{Op: "DelBond", I: idx(len(bm.Links))}
		case x < 83:
			o = c10Op{Op: "DelInput", I: idx(bm.Inputs)}
		case x < 94:
			o = c10Op{Op: "DelOutput", I: idx(bm.Outputs)}
		default:
			o = c10Op{Op: "AttachBench", A: pickOut(), B: pickOut(), V2: r.Intn(2) == 0}
			if r.Intn(8) == 0 {
				o.A = pickIn()
			}
		}
		c10Apply(bm, o)
		c.Ops = append(c.Ops, o)
	}
	return c
}

func init() {
	commands["c10"] = func(args []string) {
		fs := flag.NewFlagSet("c10", flag.ExitOnError)
		seed := fs.Int64("seed", 1, "")
		n := fs.Int("n", 100, "")
		maxlen := fs.Int("maxlen", 40, "")
		replay := fs.String("replay", "", "file with one case (doms, ops)")
		fs.Parse(args)
		if *replay != "" {
			data, err := os.ReadFile(*replay)
			if err != nil {
				panic(err)
			}
			var c c10Case
			if err := json.Unmarshal(data, &c); err != nil {
				panic(err)
			}
			c10Run(&c)
			emit(c)
			return
		}
		for k := 0; k < *n; k++ {
			sub := *seed*1000003 + int64(k)
			r := rand.New(rand.NewSource(sub))
			c := c10Gen(r, *maxlen)
			c.Case = k
			c.Seed = sub
			c10Run(c)
			emit(c)
		}
	}
}

// c10json: load a machine file, apply edits through the API, report the resulting topology (used to compare what
// cmd/bondmachine's edit flags do to a file with the same edits made through the API)
func init() {
	commands["c10json"] = func(args []string) {
		sc := bufio.NewScanner(os.Stdin)
		sc.Buffer(make([]byte, 1<<20), 1<<28)
		for sc.Scan() {
			var q struct {
				JSON string  `json:"json"`
				Ops  []c10Op `json:"ops"`
			}
			if err := json.Unmarshal(sc.Bytes(), &q); err != nil {
				panic(err)
			}
			var st c10State
			func() {
				defer func() {
					if r := recover(); r != nil {
						st = c10State{Outcome: "panic: " + fmt.Sprint(r)}
					}
				}()
				bmj := new(bondmachine.Bondmachine_json)
				if err := json.Unmarshal([]byte(q.JSON), bmj); err != nil {
					st = c10State{Outcome: "unmarshal: " + err.Error()}
					return
				}
				bm := bmj.Dejsoner()
				oc := "loaded"
				for _, o := range q.Ops {
					oc = c10Apply(bm, o)
				}
				st = c10Snapshot(bm, oc)
			}()
			emit(st)
		}
	}
}
