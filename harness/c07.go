package main

// c07: assemble the same BASM source n times in one process and count the distinct machines
// (Go re-randomises every range over a map, so in-process repetition varies the visiting orders)

import (
	"bufio"
	"crypto/sha256"
	"encoding/hex"
	"encoding/json"
	"os"
)

func init() {
	commands["c07"] = func(args []string) {
		sc := bufio.NewScanner(os.Stdin)
		sc.Buffer(make([]byte, 1<<20), 1<<28)
		for sc.Scan() {
			var q struct {
				Basm  string `json:"basm"`
				N     int    `json:"n"`
				NoDyn bool   `json:"nodyn"`
			}
			if err := json.Unmarshal(sc.Bytes(), &q); err != nil {
				panic(err)
			}
			seen := map[string]int{}
			errs := map[string]int{}
			for i := 0; i < q.N; i++ {
				bm, err := buildBM(&bmSpec{Basm: q.Basm, NoDynMatch: q.NoDyn})
				if err != nil {
					errs[err.Error()]++
					continue
				}
				b, _ := json.Marshal(bm.Jsoner())
				h := sha256.Sum256(b)
				seen[hex.EncodeToString(h[:])[:16]]++
			}
			emit(map[string]interface{}{"n": q.N, "distinct": len(seen) + len(errs), "hashes": seen, "errors": errs})
		}
	}
}
