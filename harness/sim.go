package main

import (
	"strconv"
	"bufio"
	"encoding/json"
	"fmt"
	"os"

	"github.com/BondMachineHQ/BondMachine/pkg/bondmachine"
	"github.com/BondMachineHQ/BondMachine/pkg/procbuilder"
	"github.com/BondMachineHQ/BondMachine/pkg/simbox"
)

// open-loop environment: what the caller writes into the VM before each Step
type simEnv struct {
	In      [][2]uint64 `json:"in,omitempty"`      // per external input: value, valid (0/1); missing = leave
	OutRecv []int       `json:"outrecv,omitempty"` // per external output: 0/1; -1 = follow valid (as SinglePipelineSimulate does)
}

type simReq struct {
	BM    bmSpec   `json:"bm"`
	Env   []simEnv `json:"env"`
	Ticks int      `json:"ticks"`
	Dump  string   `json:"dump,omitempty"` // "full" (default) | "ext"
	// reactive environment (C02): per external input the stream of values offered one at a time
	// (data with valid until received, then valid dropped until received falls); outputs are
	// acknowledged by echoing valid.  When set, Env is ignored.
	Streams [][]uint64 `json:"streams,omitempty"`
	// reference meaning of simulation rules (C15): "absolute:<tick>:set:<obj>:<val>" applied by hand, in the order and with
	// the valid/received protocol of the simulation loop of cmd/bondmachine; obj is iK or p<P>r<K>.  Suspended rules are listed
	// by the caller but must not be applied.
	Rules []simRule `json:"rules,omitempty"`
	// per-processor reports (config:show_pc): the text VM.Step returns is part of what is compared (C09)
	ShowPc bool `json:"showpc,omitempty"`
	// opcode -> delay in clocks -> probability (stalls of the instruction): a SimDelays object for this run
	Delays map[string]map[string]float32 `json:"delays,omitempty"`
}

type simRule struct {
	Period    int    `json:"period,omitempty"` // 0: at Tick; > 0: on every tick that is a multiple of Period
	Tick      int    `json:"tick"`
	Obj       string `json:"obj"`
	Val       uint64 `json:"val"`
	Suspended bool   `json:"suspended"`
}

type simProc struct {
	Pc       uint64   `json:"pc"`
	Regs     []uint64 `json:"regs"`
	In       []uint64 `json:"in"`
	InValid  []bool   `json:"inv"`
	InRecv   []bool   `json:"inr"`
	Out      []uint64 `json:"out"`
	OutValid []bool   `json:"outv"`
	OutRecv  []bool   `json:"outr"`
}

type simTick struct {
	Rep     string    `json:"rep,omitempty"` // the text returned by VM.Step, when asked for
	Procs   []simProc `json:"procs,omitempty"`
	In      []uint64  `json:"in"`
	InV     []bool    `json:"inv"`
	InR     []bool    `json:"inr"`
	Out     []uint64  `json:"out"`
	OutV    []bool    `json:"outv"`
	OutR    []bool    `json:"outr"`
	IIn     []uint64  `json:"iin,omitempty"`
	IInV    []bool    `json:"iinv,omitempty"`
	IInR    []bool    `json:"iinr,omitempty"`
	IOut    []uint64  `json:"iout,omitempty"`
	IOutV   []bool    `json:"ioutv,omitempty"`
	IOutR   []bool    `json:"ioutr,omitempty"`
}

type simRes struct {
	Err   string          `json:"err,omitempty"`
	Topo  *c10State       `json:"topo,omitempty"`
	Ticks []simTick       `json:"ticks,omitempty"`
	ProcInfo [][]int      `json:"procinfo,omitempty"` // per processor: rsize, R, N, M, O, L
	Progs [][]string      `json:"progs,omitempty"`    // disassembled programs
}

func u64(v interface{}) uint64 {
	switch x := v.(type) {
	case uint8:
		return uint64(x)
	case uint16:
		return uint64(x)
	case uint32:
		return uint64(x)
	case uint64:
		return x
	case nil:
		return 0
	}
	return 0
}

func u64s(l []interface{}) []uint64 {
	out := make([]uint64, len(l))
	for i, v := range l {
		out[i] = u64(v)
	}
	return out
}

func typed(rsize uint8, v uint64) interface{} {
	switch {
	case rsize <= 8:
		return uint8(v)
	case rsize <= 16:
		return uint16(v)
	case rsize <= 32:
		return uint32(v)
	}
	return v
}

func cpb(l []bool) []bool { return append([]bool{}, l...) }

func simSnapshot(vm *bondmachine.VM, full bool) simTick {
	t := simTick{In: u64s(vm.Inputs_regs), InV: cpb(vm.InputsValid), InR: cpb(vm.InputsRecv),
		Out: u64s(vm.Outputs_regs), OutV: cpb(vm.OutputsValid), OutR: cpb(vm.OutputsRecv)}
	if full {
		t.IIn, t.IInV, t.IInR = u64s(vm.Internal_inputs_regs), cpb(vm.InternalInputsValid), cpb(vm.InternalInputsRecv)
		t.IOut, t.IOutV, t.IOutR = u64s(vm.Internal_outputs_regs), cpb(vm.InternalOutputsValid), cpb(vm.InternalOutputsRecv)
		for _, p := range vm.Processors {
			t.Procs = append(t.Procs, simProc{p.Pc, u64s(p.Registers), u64s(p.Inputs), cpb(p.InputsValid), cpb(p.InputsRecv),
				u64s(p.Outputs), cpb(p.OutputsValid), cpb(p.OutputsRecv)})
		}
	}
	return t
}

func runSim(q *simReq) (res simRes) {
	defer func() {
		if r := recover(); r != nil {
			res.Err = fmt.Sprintf("panic: %v", r)
		}
	}()
	bm, err := buildBM(&q.BM)
	if err != nil {
		res.Err = "build: " + err.Error()
		return
	}
	ts := c10Snapshot(bm, "done")
	res.Topo = &ts
	for _, pd := range bm.Processors {
		d := bm.Domains[pd]
		res.ProcInfo = append(res.ProcInfo, []int{int(d.Rsize), int(d.R), int(d.N), int(d.M), int(d.O), int(d.L)})
		dis, _ := d.Disassembler()
		lines := []string{}
		cur := ""
		for _, c := range dis {
			if c == '\n' {
				lines = append(lines, cur)
				cur = ""
			} else {
				cur += string(c)
			}
		}
		res.Progs = append(res.Progs, lines)
	}
	vm := new(bondmachine.VM)
	vm.Bmach = bm
	if q.Delays != nil {
		sd := simbox.NewSimDelays()
		for op, dist := range q.Delays {
			dd := simbox.DelayDistribution{}
			for d, p := range dist {
				n, _ := strconv.Atoi(d)
				dd[int32(n)] = p
			}
			sd.OpcodeDelays[op] = dd
		}
		vm.SimDelayMap = sd
	}
	if err := vm.Init(); err != nil {
		res.Err = "init: " + err.Error()
		return
	}
	if q.ShowPc {
		sb := new(simbox.Simbox)
		sb.Add("config:show_pc")
		vm.Launch_processors(sb)
	} else {
		vm.Launch_processors(nil)
	}
	full := q.Dump != "ext"
	pos := make([]int, len(q.Streams))
	wait := make([]bool, len(q.Streams))
	for t := 0; t < q.Ticks; t++ {
		if q.Rules != nil {
			for i := range vm.InputsRecv {
				if vm.InputsRecv[i] {
					vm.InputsValid[i] = false
				}
			}
			for _, r := range q.Rules {
				if r.Suspended || (r.Period == 0 && r.Tick != t) || (r.Period > 0 && t%r.Period != 0) {
					continue
				}
				var a, b int
				if n, _ := fmt.Sscanf(r.Obj, "p%dr%d", &a, &b); n == 2 {
					if a < len(vm.Processors) && b < len(vm.Processors[a].Registers) {
						vm.Processors[a].Registers[b] = typed(bm.Rsize, r.Val)
					}
				} else if n, _ := fmt.Sscanf(r.Obj, "i%d", &a); n == 1 && a < len(vm.Inputs_regs) {
					vm.Inputs_regs[a] = typed(bm.Rsize, r.Val)
					vm.InputsValid[a] = true
				}
			}
		} else if q.Streams != nil {
			for i := range q.Streams {
				if i >= len(vm.Inputs_regs) {
					continue
				}
				recv := vm.InputsRecv[i]
				if wait[i] {
					if recv {
						vm.InputsValid[i] = false
					} else if pos[i] < len(q.Streams[i]) {
						wait[i] = false
						vm.Inputs_regs[i] = typed(bm.Rsize, q.Streams[i][pos[i]])
						vm.InputsValid[i] = true
					} else {
						vm.InputsValid[i] = false
					}
				} else if pos[i] < len(q.Streams[i]) {
					if recv {
						pos[i]++
						wait[i] = true
						vm.InputsValid[i] = false
					} else {
						vm.Inputs_regs[i] = typed(bm.Rsize, q.Streams[i][pos[i]])
						vm.InputsValid[i] = true
					}
				} else {
					vm.InputsValid[i] = false
				}
			}
			for o := range vm.OutputsRecv {
				vm.OutputsRecv[o] = vm.OutputsValid[o]
			}
		} else if t < len(q.Env) {
			e := q.Env[t]
			for i, iv := range e.In {
				if i < len(vm.Inputs_regs) {
					vm.Inputs_regs[i] = typed(bm.Rsize, iv[0])
					vm.InputsValid[i] = iv[1] != 0
				}
			}
			for o, r := range e.OutRecv {
				if o < len(vm.OutputsRecv) {
					if r < 0 {
						vm.OutputsRecv[o] = vm.OutputsValid[o]
					} else {
						vm.OutputsRecv[o] = r != 0
					}
				}
			}
		}
		var serr error
		var rep string
		quiet(func() { rep, serr = vm.Step(nil) })
		if serr != nil {
			res.Err = "step: " + serr.Error()
			return
		}
		snap := simSnapshot(vm, full)
		if q.ShowPc {
			snap.Rep = rep
		}
		res.Ticks = append(res.Ticks, snap)
		if q.Rules != nil {
			for o := range vm.OutputsRecv {
				vm.OutputsRecv[o] = vm.OutputsValid[o]
			}
		}
	}
	return
}

func init() {
	commands["sim"] = func(args []string) {
		_ = procbuilder.Allopcodes
		sc := bufio.NewScanner(os.Stdin)
		sc.Buffer(make([]byte, 1<<20), 1<<28)
		for sc.Scan() {
			var q simReq
			if err := json.Unmarshal(sc.Bytes(), &q); err != nil {
				panic(err)
			}
			emit(runSim(&q))
		}
	}
}
