package main

import (
	"strings"
	"bufio"
	"encoding/json"
	"fmt"
	"os"
	"sort"

	"github.com/BondMachineHQ/BondMachine/pkg/procbuilder"
)

// archSpec is shared by several commands
type archSpec struct {
	Rsize    int      `json:"rsize"`
	R        int      `json:"R"`
	N        int      `json:"N"`
	M        int      `json:"M"`
	L        int      `json:"L"`
	O        int      `json:"O"`
	Ops      []string `json:"ops"`
	WordSize int      `json:"wordsize"`
	Mode     string   `json:"mode"`
	Shared   string   `json:"shared"`
}

func findOp(name string) procbuilder.Opcode {
	procbuilder.EventuallyCreateInstruction(name)
	for _, op := range procbuilder.Allopcodes {
		if op.Op_get_name() == name {
			return op
		}
	}
	return nil
}

func buildArch(s *archSpec) (*procbuilder.Machine, error) {
	m := new(procbuilder.Machine)
	a := &m.Arch
	a.Rsize = uint8(s.Rsize)
	a.R, a.N, a.M, a.L, a.O = uint8(s.R), uint8(s.N), uint8(s.M), uint8(s.L), uint8(s.O)
	a.WordSize = uint8(s.WordSize)
	mode := s.Mode
	if mode == "" {
		mode = "ha"
	}
	a.Modes = []string{mode}
	a.Shared_constraints = s.Shared
	ops := []procbuilder.Opcode{}
	for _, n := range s.Ops {
		op := findOp(n)
		if op == nil {
			return nil, fmt.Errorf("unknown opcode %s", n)
		}
		ops = append(ops, op)
	}
	sort.Sort(procbuilder.ByName(ops))
	a.Op = ops
	return m, nil
}

type c03Req struct {
	Arch  archSpec `json:"arch"`
	Lines []string `json:"lines"`
}

type c03LineRes struct {
	Line   string `json:"line"`
	Word   string `json:"word"`   // "" with Err set, or the assembled word
	Err    string `json:"err"`    // "" | "err" | "panic"
	Dis    string `json:"dis"`    // disassembly of Word (one line, trailing newline removed)
	DisErr string `json:"diserr"` // "" | "err" | "panic"
	Re     string `json:"re"`     // re-assembly of Dis
	ReErr  string `json:"reerr"`
}

type c03Res struct {
	Arch    archSpec     `json:"arch"`
	OpNames []string     `json:"opnames"` // sorted, as the arch numbers them
	OpBits  int          `json:"opbits"`
	MaxWord int          `json:"maxword"`
	Lens    []int        `json:"lens"` // Op_get_instruction_len per opcode
	Res     []c03LineRes `json:"res"`
	// a whole program made of accepted lines with comment and blank lines in between, assembled and disassembled in one call
	ProgLines []string `json:"proglines"`
	ProgText  string   `json:"progtext"`
	ProgWords []string `json:"progwords"`
	ProgErr   string   `json:"progerr"`
	ProgDis   []string `json:"progdis"`
}

func asm1(m *procbuilder.Machine, line string) (word string, e string) {
	defer func() {
		if r := recover(); r != nil {
			word, e = "", "panic"
		}
	}()
	var prog procbuilder.Program
	var err error
	quiet(func() { prog, err = m.Arch.Assembler([]byte(line + "\n")) })
	if err != nil {
		return "", "err"
	}
	if len(prog.Slocs) != 1 {
		return "", fmt.Sprintf("nwords=%d", len(prog.Slocs))
	}
	return prog.Slocs[0], ""
}

func dis1(m *procbuilder.Machine, word string) (d string, e string) {
	defer func() {
		if r := recover(); r != nil {
			d, e = "", "panic"
		}
	}()
	m2 := *m
	m2.Program = procbuilder.Program{Slocs: []string{word}}
	var err error
	quiet(func() { d, err = m2.Disassembler() })
	if err != nil {
		return "", "err"
	}
	if len(d) > 0 && d[len(d)-1] == '\n' {
		d = d[:len(d)-1]
	}
	return d, ""
}

func init() {
	commands["c03"] = func(args []string) {
		sc := bufio.NewScanner(os.Stdin)
		sc.Buffer(make([]byte, 1<<20), 1<<28)
		for sc.Scan() {
			var req c03Req
			if err := json.Unmarshal(sc.Bytes(), &req); err != nil {
				panic(err)
			}
			m, err := buildArch(&req.Arch)
			if err != nil {
				panic(err)
			}
			res := c03Res{Arch: req.Arch}
			func() {
				defer func() { recover() }()
				for _, op := range m.Arch.Op {
					res.OpNames = append(res.OpNames, op.Op_get_name())
					res.Lens = append(res.Lens, op.Op_get_instruction_len(&m.Arch))
				}
				res.OpBits = m.Arch.Opcodes_bits()
				res.MaxWord = m.Arch.Max_word()
			}()
			for _, l := range req.Lines {
				r := c03LineRes{Line: l}
				r.Word, r.Err = asm1(m, l)
				if r.Err == "" {
					r.Dis, r.DisErr = dis1(m, r.Word)
					if r.DisErr == "" {
						r.Re, r.ReErr = asm1(m, r.Dis)
					}
				}
				res.Res = append(res.Res, r)
			}
			func() {
				defer func() {
					if r := recover(); r != nil {
						res.ProgErr = "panic"
					}
				}()
				capacity := 1 << m.Arch.O
				switch m.Arch.Modes[0] {
				case "vn":
					capacity = 1 << m.Arch.L
				case "hy":
					if m.Arch.L > m.Arch.O {
						capacity = 1 << m.Arch.L
					}
				}
				if capacity > 7 {
					capacity = 7
				}
				text := ""
				for k, r := range res.Res {
					if len(res.ProgLines) >= capacity {
						break
					}
					// spread over the request: every third accepted line
					if r.Err != "" || k%3 != 0 || strings.HasPrefix(strings.TrimSpace(r.Line), "#") || strings.TrimSpace(r.Line) == "" {
						continue
					}
					switch len(res.ProgLines) % 3 {
					case 0:
						text += "# a comment line\n"
					case 1:
						text += "\n"
					}
					text += r.Line + "\n"
					res.ProgLines = append(res.ProgLines, r.Line)
				}
				text += "# closing comment\n"
				res.ProgText = text
				if len(res.ProgLines) == 0 {
					return
				}
				var prog procbuilder.Program
				var err error
				quiet(func() { prog, err = m.Arch.Assembler([]byte(text)) })
				if err != nil {
					res.ProgErr = "err"
					return
				}
				res.ProgWords = prog.Slocs
				m2 := *m
				m2.Program = prog
				var d string
				quiet(func() { d, err = m2.Disassembler() })
				if err != nil {
					res.ProgErr = "diserr"
					return
				}
				res.ProgDis = strings.Split(strings.TrimRight(d, "\n"), "\n")
			}()
			emit(res)
		}
	}
}
