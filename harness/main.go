// bmh: the Go side of every correspondence check. One sub-command per property.
// Each sub-command generates inputs from a seed (or reads a replay file), runs the
// implementation in /repo, and prints one canonical JSON line per case on stdout.
package main

import (
	"bufio"
	"encoding/json"
	"fmt"
	"os"
)

var out *bufio.Writer
var realStdout *os.File

func emit(v interface{}) {
	b, err := json.Marshal(v)
	if err != nil {
		panic(err)
	}
	out.Write(b)
	out.WriteByte('\n')
}

// quiet runs f. The library prints a lot on os.Stdout: main redirects os.Stdout to /dev/null once, before any command runs (results go
// out through the writer bound to the real stdout), so that concurrent callers never swap the global - the harness itself must be
// free of data races under the race detector.
func quiet(f func()) {
	f()
}

var commands = map[string]func(args []string){}

func main() {
	realStdout = os.Stdout
	out = bufio.NewWriterSize(realStdout, 1<<20)
	if devnull, err := os.OpenFile(os.DevNull, os.O_WRONLY, 0); err == nil {
		os.Stdout = devnull
	}
	defer out.Flush()
	if len(os.Args) < 2 {
		fmt.Fprintln(os.Stderr, "usage: bmh <command> [flags]")
		os.Exit(2)
	}
	cmd, ok := commands[os.Args[1]]
	if !ok {
		fmt.Fprintln(os.Stderr, "unknown command", os.Args[1])
		os.Exit(2)
	}
	cmd(os.Args[2:])
}
