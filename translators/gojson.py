#!/usr/bin/env python3
"""Translator: pkg/procbuilder/machine.go + pkg/bondmachine/bondmachine.go -> coq/generated/GenJson.v

Reads, from the Go source as it is now,
  * the struct definitions Machine (flattened through its embedded Arch/Conproc/Rom/Ram/Program/Data),
    Machine_json, Bond, Bondmachine, Bondmachine_json  -> Coq Records, one field per Go field;
  * the bodies of the four methods Machine.Jsoner, Machine_json.Dejsoner, Bondmachine.Jsoner,
    Bondmachine_json.Dejsoner -> Gallina functions built from the loop shapes of Front/Json.v.
It understands exactly the statement shapes those methods use and raises Untranslatable on anything
else (the check then reports that the proof no longer covers the code).  A field that the method
never assigns gets the Go zero value, which is what makes a forgotten copy visible to the proof."""
import os
import re

REPO = os.environ.get("VERIF_REPO", "/repo")


class Untranslatable(Exception):
    pass


# ------------------------------------------------------------------ Go structs

def strip_comments(src):
    src = re.sub(r"/\*.*?\*/", "", src, flags=re.S)
    return re.sub(r"//[^\n]*", "", src)


def struct_fields(src, name):
    m = re.search(r"^type %s struct \{\n(.*?)^\}" % re.escape(name), src, re.S | re.M)
    if not m:
        raise Untranslatable("struct %s not found" % name)
    out = []
    for line in strip_comments(m.group(1)).split("\n"):
        line = line.strip()
        if not line:
            continue
        line = re.sub(r"\s+`[^`]*`$", "", line)
        parts = line.split(None, 1)
        if len(parts) == 1:
            out.append(("embed", parts[0].lstrip("*").split(".")[-1]))
        else:
            names = [n.strip() for n in parts[0].split(",")]
            if "," in line.split(None, 1)[0] or "," in parts[0]:
                pass
            # "A, B int" form
            mm = re.match(r"^((?:\w+\s*,\s*)*\w+)\s+(.+)$", line)
            for n in mm.group(1).split(","):
                out.append((n.strip(), mm.group(2).strip()))
    return out


def flatten(srcs, name):
    out = []
    for f, t in struct_fields(srcs, name):
        if f == "embed":
            out += flatten(srcs, t)
        else:
            out.append((f, t))
    return out


# Go type -> (Coq type, Coq zero value, kind)
def coq_type(t):
    t = t.replace("procbuilder.", "")
    table = {
        "uint8": ("Z", "0%Z", "int"), "uint32": ("Z", "0%Z", "int"), "int": ("Z", "0%Z", "int"), "uint16": ("Z", "0%Z", "int"),
        "uint64": ("Z", "0%Z", "int"), "bool": ("bool", "false", "bool"),
        "string": ("string", "EmptyString", "string"),
        "[]string": ("list string", "[]", "strings"), "[]int": ("list Z", "[]", "ints"),
        "[]Opcode": ("list (option op)", "[]", "ops"), "[]Bond": ("list bond", "[]", "bonds"),
        "[]*Machine": ("list machine", "[]", "machines"), "[]*Machine_json": ("list machine_json", "[]", "machine_jsons"),
        "[]Shared_instance": ("list (option sinst)", "[]", "sinsts"), "[]Shared_instance_list": ("list (list Z)", "[]", "intss"),
    }
    if t not in table:
        raise Untranslatable("field type %s is not modelled" % t)
    return table[t]


# ------------------------------------------------------------------ method bodies

def method_body(src, recv_type, fn):
    m = re.search(r"^func \((\w+) \*%s\) %s\(\) \*(\w+) \{\n(.*?)^\}\n" % (re.escape(recv_type), fn), src, re.S | re.M)
    if not m:
        raise Untranslatable("method %s.%s not found" % (recv_type, fn))
    return m.group(1), m.group(2), strip_comments(m.group(3))


def split_statements(body):
    """top-level statements; a for block is returned whole"""
    lines = [l.strip() for l in body.split("\n")]
    out, i = [], 0
    while i < len(lines):
        l = lines[i]
        if not l:
            i += 1
            continue
        if l.endswith("{"):
            depth, block = 1, [l]
            i += 1
            while i < len(lines) and depth > 0:
                ll = lines[i]
                depth += ll.count("{") - ll.count("}")
                block.append(ll)
                i += 1
            if depth != 0:
                raise Untranslatable("unbalanced braces")
            out.append(block)
        else:
            out.append(l)
            i += 1
    return out


def translate_method(src, recv_type, fn, src_fields, dst_fields, who):
    """-> dict dst_field -> Gallina expression over the variable x (the receiver)"""
    recv, rtype, body = method_body(src, recv_type, fn)
    srcf = {f for f, _ in src_fields}
    dstf = {f for f, _ in dst_fields}
    alloc, val = {}, {}
    stmts = split_statements(body)
    sawnew = sawret = False
    for st in stmts:
        if isinstance(st, str):
            if re.match(r"^result := new\(\w+(\.\w+)?\)$", st):
                sawnew = True
                continue
            if st == "return result":
                sawret = True
                continue
            m = re.match(r"^result\.(\w+) = make\(\[\][\w.*]+, len\(%s\.(\w+)\)\)$" % recv, st)
            if m:
                alloc[m.group(1)] = m.group(2)
                continue
            m = re.match(r"^result\.(\w+) = %s\.(\w+)$" % recv, st)
            if m:
                F, G = m.groups()
                if F not in dstf or G not in srcf:
                    raise Untranslatable("%s: unknown field in %r" % (who, st))
                val[F] = "(%s x)" % pfx(recv_type, G)
                continue
            raise Untranslatable("%s: statement not understood: %r" % (who, st))
        head = st[0]
        m = re.match(r"^for (\w+), (\w+) := range %s\.(\w+) \{$" % recv, head)
        if not m:
            raise Untranslatable("%s: loop header not understood: %r" % (who, head))
        idx, v, G = m.groups()
        inner = [l for l in st[1:-1] if l]
        text = " ".join(inner)
        text = re.sub(r"\s+", " ", text)
        F = None
        expr = None
        mm = re.match(r"^result\.(\w+)\[%s\] = %s$" % (idx, v), text)
        if mm:
            F, expr = mm.group(1), "copy_loop (fun v => v) (%s x)" % pfx(recv_type, G)
        mm = mm or None
        if F is None:
            mm = re.match(r"^result\.(\w+)\[%s\] = %s\.Op_get_name\(\)$" % (idx, v), text)
            if mm:
                F, expr = mm.group(1), "copy_loop (name_of op op_name) (%s x)" % pfx(recv_type, G)
        if F is None:
            mm = re.match(r"^result\.(\w+)\[%s\] = %s\.String\(\)$" % (idx, v), text)
            if mm:
                F, expr = mm.group(1), "copy_loop (name_of sinst si_str) (%s x)" % pfx(recv_type, G)
        if F is None:
            mm = re.match(r"^result\.(\w+)\[%s\] = %s\.(Jsoner|Dejsoner)\(\)$" % (idx, v), text)
            if mm:
                F = mm.group(1)
                fn2 = "machine_jsoner" if mm.group(2) == "Jsoner" else "machine_dejsoner allops dyn"
                expr = "copy_loop (%s) (%s x)" % (fn2, pfx(recv_type, G))
        if F is None:
            mm = re.match(r"^(EventuallyCreateInstruction\(%s\) )?for _, (\w+) := range Allopcodes \{ if \2\.Op_get_name\(\) == %s \{ result\.(\w+)\[%s\] = \2 (break )?\} \}$"
                          % (v, v, idx), text)
            if mm:
                F = mm.group(3)
                look = "lookup_first" if mm.group(4) else "lookup_last"
                reg = "(ensure dyn allops n)" if mm.group(1) else "allops"
                RESOLVER["op"] = "(fun n => %s op op_name %s n)" % (look, reg)
                expr = "copy_loop %s (%s x)" % (RESOLVER["op"], pfx(recv_type, G))
        if F is None:
            mm = re.match(r"^for _, (\w+) := range Allshared \{ if (\w+), ok := \1\.Instantiate\(%s\); ok \{ result\.(\w+)\[%s\] = \2 (break )?\} \}$" % (v, idx), text)
            if mm:
                F = mm.group(3)
                RESOLVER["sinst"] = "(%s sinst kinds)" % ("inst_first" if mm.group(4) else "inst_last")
                expr = "copy_loop %s (%s x)" % (RESOLVER["sinst"], pfx(recv_type, G))
        if F is None:
            raise Untranslatable("%s: loop body not understood: %r" % (who, text))
        if F not in dstf or G not in srcf:
            raise Untranslatable("%s: unknown field in loop over %s" % (who, G))
        if alloc.get(F) != G:
            raise Untranslatable("%s: result.%s is filled from %s but allocated with the length of %s" % (who, F, G, alloc.get(F)))
        val[F] = expr
    if not (sawnew and sawret):
        raise Untranslatable("%s: no result := new(..) / return result" % who)
    for F in alloc:
        if F not in val:
            # allocated but never filled: a slice of zero values
            G = alloc[F]
            t = dict(dst_fields)[F]
            zero = {"[]string": "EmptyString", "[]int": "0%Z", "[]Opcode": "None", "[]Shared_instance": "None"}.get(t.replace("procbuilder.", ""))
            if zero is None:
                raise Untranslatable("%s: result.%s allocated and never filled" % (who, F))
            val[F] = "copy_loop (fun _ => %s) (%s x)" % (zero, pfx(recv_type, G))
    return val


RESOLVER = {}
TREE = {"int": "TZ (%s)", "string": "TS (%s)", "bool": "TZ (if %s then 1 else 0)%%Z", "strings": "TL (map TS (%s))", "ints": "TL (map TZ (%s))",
        "ops": "TL (map op_tree (%s))", "bonds": "TL (map bond_tree (%s))", "machines": "TL (map machine_tree (%s))",
        "machine_jsons": "TL (map machine_json_tree (%s))", "sinsts": "TL (map sinst_tree (%s))",
        "intss": "TL (map (fun l => TL (map TZ l)) (%s))"}


def cq_string(s):
    if any(ord(ch) < 32 or ord(ch) > 126 for ch in s):
        raise Untranslatable("non-printable string in a dump: %r" % s)
    return '"%s"%%string' % s.replace('"', '""')


def lst(items):
    return "[" + "; ".join(items) + "]"


def term(F, struct, d):
    """Coq record term (positional constructor) for a dumped Go value"""
    coq = {"Bond": "bond", "Machine": "machine", "Machine_json": "machine_json", "Bondmachine": "bondmachine",
           "Bondmachine_json": "bondmachine_json"}[struct]
    args = []
    for f, t in F[struct]:
        if f not in d:
            raise Untranslatable("dump of %s lacks field %s" % (struct, f))
        v, k = d[f], coq_type(t)[2]
        args.append(value_term(F, k, v))
    return "(mk_%s %s)" % (coq, " ".join(args))


def value_term(F, k, v):
    if k == "int":
        return "(%d)%%Z" % v
    if k == "bool":
        return "true" if v else "false"
    if k == "string":
        return cq_string(v)
    v = v or []
    if k == "strings":
        return "(%s : list string)" % lst([cq_string(x) for x in v])
    if k == "ints":
        return "(%s : list Z)" % lst(["(%d)%%Z" % x for x in v])
    if k == "intss":
        return "(%s : list (list Z))" % lst(["(%s : list Z)" % lst(["(%d)%%Z" % y for y in (x or [])]) for x in v])
    if k == "ops":
        return "(%s : list (option op))" % lst(["None" if x is None else "(Some (mkOp %s %s%%N))" % (cq_string(x["name"]), x["id"]) for x in v])
    if k == "sinsts":
        return "(%s : list (option sinst))" % lst(["None" if x is None else "(Some (mkSI %s %s%%N))" % (cq_string(x["str"]), x["id"]) for x in v])
    if k == "bonds":
        return "(%s : list bond)" % lst([term(F, "Bond", x) for x in v])
    if k == "machines":
        return "(%s : list machine)" % lst([term(F, "Machine", x) for x in v])
    if k == "machine_jsons":
        return "(%s : list machine_json)" % lst([term(F, "Machine_json", x) for x in v])
    raise Untranslatable("kind " + k)


def tree_term(F, struct, d):
    """the tree the model's <struct>_tree must produce for an observed value"""
    parts = []
    for f, t in F[struct]:
        if f not in d:
            raise Untranslatable("observed %s lacks field %s" % (struct, f))
        v, k = d[f], coq_type(t)[2]
        if k == "int":
            parts.append("TZ (%d)%%Z" % v)
        elif k == "bool":
            parts.append("TZ %d%%Z" % (1 if v else 0))
        elif k == "string":
            parts.append("TS %s" % cq_string(v))
        else:
            v = v or []
            if k == "strings":
                parts.append("TL %s" % lst(["TS %s" % cq_string(x) for x in v]))
            elif k == "ints":
                parts.append("TL %s" % lst(["TZ (%d)%%Z" % x for x in v]))
            elif k == "intss":
                parts.append("TL %s" % lst(["TL %s" % lst(["TZ (%d)%%Z" % y for y in (x or [])]) for x in v]))
            elif k == "ops":
                parts.append("TL %s" % lst(["TN" if x is None else "TO %s %s%%N" % (cq_string(x["name"]), x["id"]) for x in v]))
            elif k == "sinsts":
                parts.append("TL %s" % lst(["TN" if x is None else "TO %s %s%%N" % (cq_string(x["str"]), x["id"]) for x in v]))
            elif k == "bonds":
                parts.append("TL %s" % lst([tree_term(F, "Bond", x) for x in v]))
            elif k == "machines":
                parts.append("TL %s" % lst([tree_term(F, "Machine", x) for x in v]))
            elif k == "machine_jsons":
                parts.append("TL %s" % lst([tree_term(F, "Machine_json", x) for x in v]))
            else:
                raise Untranslatable("kind " + k)
    return "(TL %s)" % lst(parts)

PFX = {"Machine": "m_", "Machine_json": "mj_", "Bondmachine": "bm_", "Bondmachine_json": "bj_", "Bond": "b_"}


def pfx(struct, field):
    return PFX[struct] + field


def record(name, coqname, fields):
    ctor = "mk_" + coqname
    body = ";\n  ".join("%s : %s" % (pfx(name, f), coq_type(t)[0]) for f, t in fields)
    return "Record %s := %s {\n  %s\n}.\n" % (coqname, ctor, body)


def function(fname, params, src_struct, src_coq, dst_struct, dst_coq, dst_fields, val):
    rows = []
    for f, t in dst_fields:
        rows.append("%s := %s" % (pfx(dst_struct, f), val.get(f, coq_type(t)[1])))
    return "Definition %s %s(x : %s) : %s :=\n  {| %s |}.\n" % (fname, params, src_coq, dst_coq, ";\n     ".join(rows))


# fields of Machine / Bondmachine that are recomputed before every use and are not part of the
# saved form (DESIGN.md C11): overwritten by Write_verilog / VM.Init from the position of the processor
DERIVED = {"Machine": ["CpID", "Tag", "SharedHDLOps"], "Bondmachine": []}


def generate(repo=REPO):
    pb = open(os.path.join(repo, "pkg/procbuilder/machine.go")).read()
    pball = "\n".join(open(os.path.join(repo, "pkg/procbuilder", f)).read() for f in
                      ("machine.go", "arch.go", "conproc.go", "rom.go", "ram.go", "program.go", "data.go"))
    bmsrc = open(os.path.join(repo, "pkg/bondmachine/bondmachine.go")).read()
    F = {
        "Machine": flatten(pball, "Machine"), "Machine_json": flatten(pball, "Machine_json"),
        "Bond": flatten(bmsrc, "Bond"), "Bondmachine": flatten(bmsrc, "Bondmachine"),
        "Bondmachine_json": flatten(bmsrc, "Bondmachine_json"),
    }
    for s, fl in F.items():
        for _, t in fl:
            coq_type(t)
    v = {}
    v["mj"] = translate_method(pb, "Machine", "Jsoner", F["Machine"], F["Machine_json"], "Machine.Jsoner")
    v["md"] = translate_method(pb, "Machine_json", "Dejsoner", F["Machine_json"], F["Machine"], "Machine_json.Dejsoner")
    v["bj"] = translate_method(bmsrc, "Bondmachine", "Jsoner", F["Bondmachine"], F["Bondmachine_json"], "Bondmachine.Jsoner")
    v["bd"] = translate_method(bmsrc, "Bondmachine_json", "Dejsoner", F["Bondmachine_json"], F["Bondmachine"], "Bondmachine_json.Dejsoner")
    out = ["(* GENERATED by translators/gojson.py from pkg/procbuilder/machine.go and pkg/bondmachine/bondmachine.go — do not edit *)",
           "From Coq Require Import List String ZArith Bool.", "From BM Require Import Front.Json.", "Import ListNotations.", ""]
    out.append(record("Bond", "bond", F["Bond"]))
    out.append(record("Machine", "machine", F["Machine"]))
    out.append(record("Machine_json", "machine_json", F["Machine_json"]))
    out.append(record("Bondmachine", "bondmachine", F["Bondmachine"]))
    out.append(record("Bondmachine_json", "bondmachine_json", F["Bondmachine_json"]))
    out.append(function("machine_jsoner", "", "Machine", "machine", "Machine_json", "machine_json", F["Machine_json"], v["mj"]))
    out.append(function("machine_dejsoner", "(allops : list op) (dyn : string -> option op) ", "Machine_json", "machine_json", "Machine", "machine",
                        F["Machine"], v["md"]))
    out.append(function("bondmachine_jsoner", "", "Bondmachine", "bondmachine", "Bondmachine_json", "bondmachine_json",
                        F["Bondmachine_json"], v["bj"]))
    out.append(function("bondmachine_dejsoner", "(allops : list op) (dyn : string -> option op) (kinds : list (string -> option sinst)) ",
                        "Bondmachine_json", "bondmachine_json", "Bondmachine", "bondmachine", F["Bondmachine"], v["bd"]))
    for s_, c in (("Bond", "bond"), ("Machine", "machine"), ("Machine_json", "machine_json"), ("Bondmachine", "bondmachine"),
                  ("Bondmachine_json", "bondmachine_json")):
        out.append("Definition %s_tree (x : %s) : tree :=\n  TL [%s].\n" % (c, c, ";\n      ".join(
            TREE[coq_type(t)[2]] % ("%s x" % pfx(s_, f)) for f, t in F[s_])))
    # equality up to the derived fields
    for s, c in (("Machine", "machine"), ("Bondmachine", "bondmachine")):
        conj = []
        for f, t in F[s]:
            if f in DERIVED[s]:
                continue
            if s == "Bondmachine" and coq_type(t)[2] == "machines":
                conj.append("Forall2 machine_same (%s a) (%s b)" % (pfx(s, f), pfx(s, f)))
            else:
                conj.append("%s a = %s b" % (pfx(s, f), pfx(s, f)))
        out.append("Definition %s_same (a b : %s) : Prop :=\n  %s.\n" % (c, c, " /\\\n  ".join(conj)))
    # what a machine must satisfy for the round trip: every opcode slot / shared slot resolvable
    opf = [f for f, t in F["Machine"] if coq_type(t)[2] == "ops"]
    out.append("Definition machine_registered (allops : list op) (dyn : string -> option op) (m : machine) : Prop :=\n  %s.\n" %
               " /\\\n  ".join("Forall (slot_registered op_name %s) (%s m)" % (RESOLVER.get("op", "(fun _ => None)"), pfx("Machine", f)) for f in opf))
    sf = [f for f, t in F["Bondmachine"] if coq_type(t)[2] == "sinsts"]
    mf = [f for f, t in F["Bondmachine"] if coq_type(t)[2] == "machines"]
    parts = ["Forall (machine_registered allops dyn) (%s b)" % pfx("Bondmachine", f) for f in mf]
    parts += ["Forall (slot_registered si_str %s) (%s b)" % (RESOLVER.get("sinst", "(fun _ => None)"), pfx("Bondmachine", f)) for f in sf]
    out.append("Definition bondmachine_registered (allops : list op) (dyn : string -> option op) (kinds : list (string -> option sinst)) (b : bondmachine) : Prop :=\n  %s.\n"
               % " /\\\n  ".join(parts or ["True"]))
    return "\n".join(out), F, v


if __name__ == "__main__":
    text, F, v = generate()
    print(text)
