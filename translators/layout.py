#!/usr/bin/env python3
"""Translator: pkg/procbuilder/op_*.go -> coq/generated/GenLayout.v

For every opcode file it extracts, independently of each other,
  * the field sequence written by  Assembler      (operand kind, zeros_prefix width, pad loop start)
  * the slices read by              Disassembler   (get_id(instr[lo:hi]) and the printer applied)
  * the expression returned by      Op_get_instruction_len
as symbolic width expressions over the architecture parameters.  Opcodes whose code uses a
construct this translator does not understand are listed as opaque (correspondence-only),
never guessed.  It matches on the small set of statement shapes the opcode files use and fails
loudly (opaque + reason) on anything else."""
import ast
import glob
import json
import os
import re
import sys

ATOMS = {
    "arch.Opcodes_bits()": "AOp", "arch.Inputs_bits()": "AInb", "arch.Outputs_bits()": "AOutb",
    "arch.R": "AR", "arch.Rsize": "ARsize", "arch.O": "AO", "arch.L": "AL",
}

SHR_KINDS = {"Queue": "SQueue", "Stack": "SStack", "Uart": "SUart", "Kbd": "SKbd", "Barrier": "SBarrier", "Lfsr8": "SLfsr8", "Channel": "SChannel"}
SHR_NAMES = {"queue": "SQueue", "stack": "SStack", "uart": "SUart", "kbd": "SKbd", "barrier": "SBarrier", "lfsr8": "SLfsr8", "channel": "SChannel"}


def shared_tokens(body):
    """shared-object idioms -> tokens: `x := Queue{}` binds x to a kind; arch.Shared_bits(x.Shr_get_name()) / arch.Shared_bits("queue")
    become the atom AShr_SQueue, arch.Shared_num(...) the count NShr_SQueue, x.Shortname() the operand prefix SHORT_SQueue"""
    kinds = {}
    for m in re.finditer(r"^\s*(\w+) := (%s)\{\}\s*$" % "|".join(SHR_KINDS), body, re.M):
        kinds[m.group(1)] = SHR_KINDS[m.group(2)]
    for v, k in kinds.items():
        body = body.replace("arch.Shared_bits(%s.Shr_get_name())" % v, "AShr_" + k)
        body = body.replace("arch.Shared_num(%s.Shr_get_name())" % v, "NShr_" + k)
        body = body.replace("%s.Shortname()" % v, "SHORT_" + k)
    for n, k in SHR_NAMES.items():
        body = body.replace('arch.Shared_bits("%s")' % n, "AShr_" + k)
        body = body.replace('arch.Shared_num("%s")' % n, "NShr_" + k)
    return body


def resolve_token(name, defs, prefix):
    """the kind behind a local variable defined as <prefix><kind> (or the token itself)"""
    seen = 0
    while not name.startswith(prefix) and seen < 4:
        ds = defs.get(name)
        if not ds or len(set(ds)) != 1:
            raise Opaque("identifier %s has no unique local definition" % name)
        name = ds[0].strip()
        seen += 1
    if not name.startswith(prefix):
        raise Opaque("cannot resolve %s to a shared-object kind" % name)
    return name[len(prefix):]


SWITCH = re.compile(r'switch arch\.Modes\[0\] \{(.*?)\n\t\}', re.S)
MAXPAT = re.compile(r'^if arch\.O > arch\.L \{\s*(?:locationBits =|return) (?P<a>[^\n]+?)\s*\} else \{\s*(?:locationBits =|return) (?P<b>[^\n]+?)\s*\}$', re.S)


class Opaque(Exception):
    pass


def func_body(src, recv_fn):
    m = re.search(r"^func \(op \w+\) %s\(.*?\) .*?\{\n(.*?)^\}\n" % recv_fn, src, re.S | re.M)
    return m.group(1) if m else None


def strip_comments(body):
    return re.sub(r"//[^\n]*", "", body)


def local_defs(body):
    defs = {}
    for m in re.finditer(r"^\s*(\w+) := ([^\n{]+?)\s*$", body, re.M):
        defs.setdefault(m.group(1), []).append(m.group(2).strip())
    return defs


def to_wexpr(expr, body, defs, depth=0):
    """Go int expression -> wexpr term (as nested tuples)"""
    if depth > 6:
        raise Opaque("definition chain too deep: " + expr)
    e = expr.strip()
    e = re.sub(r"\bint\(", "(", e)
    for k, v in ATOMS.items():
        e = e.replace(k, v)
    try:
        tree = ast.parse(e, mode="eval").body
    except SyntaxError:
        raise Opaque("cannot parse width expression %r" % expr)

    def conv(n):
        if isinstance(n, ast.Constant) and isinstance(n.value, int):
            return ("C", n.value)
        if isinstance(n, ast.Name):
            if n.id in ("AOp", "AInb", "AOutb", "AR", "ARsize", "AO", "AL", "AMaxOL"):
                return ("A", n.id)
            if n.id.startswith("AShr_"):
                return ("A", "(AShr %s)" % n.id[5:])
            if n.id == "locationBits":
                return mode_switch(body, "locationBits", defs)
            ds = defs.get(n.id)
            if not ds or len(set(ds)) != 1:
                raise Opaque("identifier %s has no unique local definition" % n.id)
            return to_wexpr(ds[0], body, defs, depth + 1)
        if isinstance(n, ast.BinOp) and isinstance(n.op, ast.Add):
            return ("P", conv(n.left), conv(n.right))
        if isinstance(n, ast.BinOp) and isinstance(n.op, ast.Mult):
            if isinstance(n.left, ast.Constant):
                return ("M", n.left.value, conv(n.right))
            if isinstance(n.right, ast.Constant):
                return ("M", n.right.value, conv(n.left))
        raise Opaque("unsupported width expression %r" % expr)
    return conv(tree)


def mode_cases(body):
    m = SWITCH.search(body)
    if not m:
        raise Opaque("no switch on arch.Modes[0]")
    segs = re.split(r'case "(ha|vn|hy)":', m.group(1))
    if segs[0].strip():
        raise Opaque("unexpected text before the first case")
    cases = {}
    for i in range(1, len(segs), 2):
        cases[segs[i]] = segs[i + 1].strip()
    return cases, body[m.end():]


def max_of(a, b, body, defs):
    """`if arch.O > arch.L {X(O)} else {X(L)}`: accept when both branches are the same expression
    with arch.O / arch.L exchanged; the value is that expression over max(O, L)."""
    if a.replace("arch.O", "@") != b.replace("arch.L", "@"):
        raise Opaque("if O > L branches are not symmetric")
    return to_wexpr(a.replace("arch.O", "AMaxOL"), body, defs)


def mode_switch(body, var, defs):
    cases, _ = mode_cases(body)
    init = [d for d in defs.get(var, [])]
    if len(set(init)) != 1:
        raise Opaque("no unique initial value for " + var)
    defs2 = {k: v for k, v in defs.items() if k != var}
    out = []
    for md in ("ha", "vn", "hy"):
        if md not in cases:
            out.append(to_wexpr(init[0], body, defs2))
            continue
        seg = cases[md]
        m1 = re.match(r"^%s = ([^\n]+)$" % var, seg)
        m2 = MAXPAT.match(seg)
        if m1:
            out.append(to_wexpr(m1.group(1), body, defs2))
        elif m2:
            out.append(max_of(m2.group("a"), m2.group("b"), body, defs2))
        else:
            raise Opaque("unrecognised case body for mode " + md)
    return ("Mode",) + tuple(out)


def mode_returns(body, defs):
    cases, rest = mode_cases(body)
    dflt = re.search(r"return ([^\n]+)", rest)
    if not dflt:
        raise Opaque("no default return after the mode switch")
    out = []
    for md in ("ha", "vn", "hy"):
        if md not in cases:
            out.append(to_wexpr(dflt.group(1), body, defs))
            continue
        seg = cases[md]
        m1 = re.match(r"^return ([^\n]+)$", seg)
        m2 = MAXPAT.match(seg)
        if m1:
            out.append(to_wexpr(m1.group(1), body, defs))
        elif m2:
            out.append(max_of(m2.group("a"), m2.group("b"), body, defs))
        else:
            raise Opaque("unrecognised return in mode " + md)
    return ("Mode",) + tuple(out)


def wexpr_coq(w):
    if w[0] == "Mode":
        return "(WMode %s %s %s)" % tuple(wexpr_coq(x) for x in w[1:])
    if w[0] == "C":
        return "(WC %d)" % w[1]
    if w[0] == "A":
        return "(WA %s)" % w[1]
    if w[0] == "P":
        return "(WPlus %s %s)" % (wexpr_coq(w[1]), wexpr_coq(w[2]))
    return "(WMul %d %s)" % (w[1], wexpr_coq(w[2]))


ASM_EVENT = re.compile(
    r"len\(words\) != (?P<arity>\d+)"
    r"|words\[(?P<regidx>\d)\] == strings\.ToLower\(Get_register_name\(i\)\)"
    r"|Process_number\(words\[(?P<numidx>\d)\]\)"
    r"|Process_input\(words\[(?P<inidx>\d)\], int\(arch\.N\)\)"
    r"|Process_output\(words\[(?P<outidx>\d)\], int\(arch\.M\)\)"
    r"|Process_shared\((?P<shshort>\w+), words\[(?P<shidx>\d)\], (?P<shnum>\w+)\)"
    r"|zeros_prefix\((?P<width>[^,]+), (?P<src>[^)]*\)?)\)"
    r"|for i := (?P<pad>[^;]+); i < (?:rom_word|romWord); i\+\+ \{\s*result \+= \"0\"\s*\}"
    r"|(?P<bad>Process_shared|Shared_bits|Shared_num|Shr_get_name|Get_channel_name|Process_\w+\()")


def parse_assembler(body):
    body = shared_tokens(strip_comments(body))
    defs = local_defs(body)
    arity = None
    fields = []
    pad = None
    pending = None  # (kind, operand index)
    for m in ASM_EVENT.finditer(body):
        if m.group("bad"):
            raise Opaque("assembler uses " + m.group("bad"))
        if m.group("arity"):
            arity = int(m.group("arity"))
        elif m.group("regidx"):
            pending = ("KReg", int(m.group("regidx")))
        elif m.group("numidx"):
            pending = ("KNum", int(m.group("numidx")))
        elif m.group("inidx"):
            pending = ("KIn", int(m.group("inidx")))
        elif m.group("outidx"):
            pending = ("KOut", int(m.group("outidx")))
        elif m.group("shidx"):
            k1, k2 = resolve_token(m.group("shshort"), defs, "SHORT_"), resolve_token(m.group("shnum"), defs, "NShr_")
            if k1 != k2:
                raise Opaque("shared operand prefix of %s checked against the count of %s" % (k1, k2))
            pending = ("(KShr %s)" % k1, int(m.group("shidx")))
        elif m.group("width"):
            if pending is None:
                raise Opaque("zeros_prefix without a recognised operand source")
            kind, idx = pending
            if idx != len(fields):
                raise Opaque("operand %d encoded at field position %d" % (idx, len(fields)))
            src = m.group("src")
            if kind == "KReg" and src.replace(" ", "") != "get_binary(i)":
                raise Opaque("register field source " + src)
            if kind != "KReg" and src.strip() != "partial":
                raise Opaque("field source " + src)
            fields.append((kind, to_wexpr(m.group("width"), body, defs)))
            pending = None
        elif m.group("pad"):
            if pad is not None:
                raise Opaque("two padding loops")
            pad = to_wexpr(m.group("pad"), body, defs)
    if pending is not None:
        raise Opaque("operand parsed but never encoded")
    # everything that appends to result must have been recognised
    appends = len(re.findall(r"result \+= ", body))
    if appends != len(fields) + (1 if pad is not None else 0):
        raise Opaque("%d appends to result, %d recognised" % (appends, len(fields) + (1 if pad else 0)))
    return arity, fields, pad


DIS_EVENT = re.compile(
    r"get_id\(instr\[(?P<lo>[^:\]]*):(?P<hi>[^\]]*)\]\)"
    r"|(?P<shr>\b\w+) \+ strconv\.Itoa\("
    r"|(?P<reg>Get_register_name\()|(?P<num>strconv\.Itoa\()|(?P<numu>strconv\.FormatUint\(uint64\(\w+\), 10\))"
    r"|(?P<inp>Get_input_name\()|(?P<outp>Get_output_name\()"
    r"|(?P<bad>Get_channel_name|Shared_|Shr_get_name|FormatInt|FormatUint|Sprintf)")


def parse_disassembler(body):
    body = shared_tokens(strip_comments(body))
    defs = local_defs(body)
    out = []
    pending = None
    for m in DIS_EVENT.finditer(body):
        if m.group("bad"):
            raise Opaque("disassembler uses " + m.group("bad"))
        if m.group("hi") is not None:
            if pending is not None:
                raise Opaque("slice without printer")
            lo = m.group("lo").strip() or "0"
            pending = (to_wexpr(lo, body, defs), to_wexpr(m.group("hi"), body, defs))
        else:
            kind = ("(PShr %s)" % resolve_token(m.group("shr"), defs, "SHORT_") if m.group("shr") else
                    "PReg" if m.group("reg") else "PNum" if m.group("num") else "PNumU" if m.group("numu")
                    else "PIn" if m.group("inp") else "POut")
            if pending is None:
                raise Opaque("printer without slice")
            out.append((pending[0], pending[1], kind))
            pending = None
    if pending is not None:
        raise Opaque("slice without printer")
    # result must be built from exactly these printers
    if len(re.findall(r"result \+= |result := ", body)) not in (len(out), len(out) + 1, 0):
        raise Opaque("disassembler builds its result in an unrecognised way")
    if not out and not re.search(r'return "", nil', body):
        raise Opaque("empty disassembler of unknown shape")
    return out


def parse_len(body):
    body = shared_tokens(strip_comments(body))
    rets = re.findall(r"return ([^\n]+)", body)
    if len(rets) == 1:
        return to_wexpr(rets[0], body, local_defs(body))
    return mode_returns(body, local_defs(body))


def translate(repo):
    layouts, opaque = [], []
    for f in sorted(glob.glob(os.path.join(repo, "pkg/procbuilder/op_*.go"))):
        if f.endswith("_test.go"):
            continue
        src = open(f).read()
        nb = func_body(src, "Op_get_name")
        if nb is None:
            continue
        nm = re.search(r'return "([^"]+)"', nb)
        if not nm:
            opaque.append((os.path.basename(f), "no literal name"))
            continue
        name = nm.group(1)
        try:
            ab, db, lb = func_body(src, "Assembler"), func_body(src, "Disassembler"), func_body(src, "Op_get_instruction_len")
            if ab is None or db is None or lb is None:
                raise Opaque("missing Assembler/Disassembler/Op_get_instruction_len")
            arity, fields, pad = parse_assembler(ab)
            dis = parse_disassembler(db)
            nom = parse_len(lb)
            layouts.append(dict(name=name, arity=arity, fields=fields, pad=pad, nom=nom, dis=dis, file=os.path.basename(f)))
        except Opaque as e:
            opaque.append((name, str(e)))
    return layouts, opaque


def emit_coq(layouts, opaque, path):
    with open(path, "w") as o:
        o.write("(* GENERATED by translators/layout.py from pkg/procbuilder/op_*.go — do not edit *)\n")
        o.write("From Coq Require Import List String.\nFrom BM Require Import Isa.Encode.\nImport ListNotations.\nLocal Open Scope string_scope.\n\n")
        o.write("Definition table : list layout := [\n")
        rows = []
        for l in layouts:
            af = "; ".join("mkAF %s %s" % (k, wexpr_coq(w)) for k, w in l["fields"])
            df = "; ".join("mkDF %s %s %s" % (wexpr_coq(lo), wexpr_coq(hi), k) for lo, hi, k in l["dis"])
            rows.append('  mkLayout "%s" %s [%s] %s %s [%s]' % (
                l["name"], "(Some %d)" % l["arity"] if l["arity"] is not None else "None", af,
                "(Some %s)" % wexpr_coq(l["pad"]) if l["pad"] is not None else "None", wexpr_coq(l["nom"]), df))
        o.write(";\n".join(rows))
        o.write("\n].\n\nDefinition opaque : list string := [%s].\n" % "; ".join('"%s"' % n for n, _ in opaque))


if __name__ == "__main__":
    repo = sys.argv[1] if len(sys.argv) > 1 else "/repo"
    out = sys.argv[2] if len(sys.argv) > 2 else "/verif/coq/generated/GenLayout.v"
    L, O = translate(repo)
    emit_coq(L, O, out)
    json.dump(dict(layouts=[l["name"] for l in L], opaque=O), sys.stdout, indent=1)
