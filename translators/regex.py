#!/usr/bin/env python3
"""Translator: Go (RE2) regular expressions used as number matchers -> Front.Regex.re terms.
Supports exactly the constructs that occur: ^...$ anchoring, literals, escaped metacharacters,
'.', character classes with ranges and negation, (?P<name>...) and plain groups, alternation,
postfix * + ?.  Anything else raises Unsupported (never guessed)."""
import random


class Unsupported(Exception):
    pass


META = set("\\.+*?()|[]{}^$")


def parse(rx):
    if not (rx.startswith("^") and rx.endswith("$")) or rx.endswith("\\$"):
        raise Unsupported("pattern is not anchored with ^...$: " + rx)
    body = rx[1:-1]
    for ch in body:
        if ord(ch) > 127:
            raise Unsupported("non-ASCII character in pattern")
    pos = [0]

    def peek():
        return body[pos[0]] if pos[0] < len(body) else None

    def take():
        c = body[pos[0]]
        pos[0] += 1
        return c

    def alt():
        branches = [cat()]
        while peek() == "|":
            take()
            branches.append(cat())
        node = branches[0]
        for b in branches[1:]:
            node = ("alt", node, b)
        return node

    def cat():
        items = []
        while peek() is not None and peek() not in "|)":
            items.append(postfix())
        if not items:
            return ("eps",)
        node = items[-1]
        for it in reversed(items[:-1]):
            node = ("cat", it, node)
        return node

    def postfix():
        a = atom()
        while peek() in ("*", "+", "?"):
            op = take()
            if peek() == "?":
                raise Unsupported("lazy quantifier")
            a = ({"*": "star", "+": "plus", "?": "opt"}[op], a)
        if peek() == "{":
            raise Unsupported("counted repetition")
        return a

    def atom():
        c = take()
        if c == "(":
            if body.startswith("?P<", pos[0]):
                end = body.index(">", pos[0])
                pos[0] = end + 1
            elif peek() == "?":
                raise Unsupported("group flags")
            inner = alt()
            if take() != ")":
                raise Unsupported("unbalanced group")
            return inner
        if c == "[":
            neg = False
            if peek() == "^":
                take()
                neg = True
            ranges = []
            first = True
            while True:
                d = take()
                if d == "]" and not first:
                    break
                first = False
                if d == "\\":
                    d = take()
                    if d not in META and d != "-":
                        raise Unsupported("class escape \\" + d)
                if d == "[" and peek() == ":":
                    raise Unsupported("posix class")
                lo = ord(d)
                hi = lo
                if peek() == "-" and body[pos[0] + 1] != "]":
                    take()
                    e = take()
                    if e == "\\":
                        e = take()
                    hi = ord(e)
                ranges.append((lo, hi))
            return ("cls", neg, ranges)
        if c == ".":
            return ("cls", True, [(10, 10)])
        if c == "\\":
            d = take()
            if d in META or d == "-":
                return ("cls", False, [(ord(d), ord(d))])
            raise Unsupported("escape \\" + d)
        if c in "^$":
            raise Unsupported("inner anchor")
        if c in META:
            raise Unsupported("unexpected metacharacter " + c)
        return ("cls", False, [(ord(c), ord(c))])

    node = alt()
    if pos[0] != len(body):
        raise Unsupported("trailing input in pattern")
    return node


def coq(node):
    t = node[0]
    if t == "eps":
        return "Eps"
    if t == "cls":
        return "(Cls %s [%s])" % ("true" if node[1] else "false", "; ".join("(%d, %d)" % r for r in node[2]))
    if t == "cat":
        return "(Cat %s %s)" % (coq(node[1]), coq(node[2]))
    if t == "alt":
        return "(Alt %s %s)" % (coq(node[1]), coq(node[2]))
    if t == "star":
        return "(Star %s)" % coq(node[1])
    if t == "plus":
        return "(plus %s)" % coq(node[1])
    if t == "opt":
        return "(opt %s)" % coq(node[1])
    raise Unsupported(t)


OUTSIDE = ["é", "\n", "€", " ", "~", "<", ">", "p", "x", "L", "-", ".", "0", "9", "a", "G"]


def sample(node, rnd):
    """a string of the language (used to exercise the tie, not for any verdict)"""
    t = node[0]
    if t == "eps":
        return ""
    if t == "cls":
        neg, ranges = node[1], node[2]
        if not neg:
            lo, hi = rnd.choice(ranges)
            return chr(rnd.randint(lo, hi))
        for _ in range(50):
            c = rnd.choice(OUTSIDE) if rnd.random() < 0.5 else chr(rnd.randint(32, 126))
            if not any(lo <= ord(c) <= hi for lo, hi in ranges):
                return c
        return "~"
    if t == "cat":
        return sample(node[1], rnd) + sample(node[2], rnd)
    if t == "alt":
        return sample(node[rnd.randint(1, 2)], rnd)
    if t == "star":
        return "".join(sample(node[1], rnd) for _ in range(rnd.choice([0, 0, 1, 2, 3])))
    if t == "plus":
        return "".join(sample(node[1], rnd) for _ in range(rnd.choice([1, 1, 2, 3, 5])))
    if t == "opt":
        return sample(node[1], rnd) if rnd.random() < 0.5 else ""
    raise Unsupported(t)


def mutate(s, rnd):
    if not s or rnd.random() < 0.2:
        return s + rnd.choice(OUTSIDE)
    i = rnd.randrange(len(s))
    k = rnd.randrange(3)
    if k == 0:
        return s[:i] + s[i + 1:]
    if k == 1:
        return s[:i] + rnd.choice(OUTSIDE) + s[i:]
    return s[:i] + rnd.choice(OUTSIDE) + s[i + 1:]


def syms(s):
    """the model's alphabet: code points below 128 as they are, everything else 128"""
    return [ord(c) if ord(c) < 128 else 128 for c in s]
